#include <GeographicLib/Geoid.hpp>
#include <cmath>
#include <cstdio>
#include <fstream>
#include <limits>
#include <exception>
using namespace GeographicLib;
int main() {
  const int W = 24, H = 13;
  { std::ofstream f("/tmp/f14/synth.pgm", std::ios::binary);
    f << "P5\n# Offset -108\n# Scale 0.003\n" << W << " " << H << "\n65535\n";
    for (int iy = 0; iy < H; ++iy) for (int ix = 0; ix < W; ++ix) { unsigned v = 30000 + 100*ix + 7*iy; f.put(char(v >> 8)); f.put(char(v & 0xff)); } }
  double nan = std::numeric_limits<double>::quiet_NaN(), inf = std::numeric_limits<double>::infinity();
  double args[][4] = {{nan, 0, 10, 20}, {0, nan, 10, 20}, {0, 0, nan, 20}, {0, 0, 10, nan}, {0, inf, 10, 20}, {0, 0, 10, inf}, {-inf, 0, 10, 20}};
  int bad = 0;
  for (auto& a : args) {
    Geoid g("synth", "/tmp/f14", true, false);
    try { g.CacheArea(a[0], a[1], a[2], a[3]); std::printf("CacheArea(%g,%g,%g,%g): returned, Cache()=%d\n", a[0], a[1], a[2], a[3], (int)g.Cache()); }
    catch (const GeographicErr& e) { std::printf("CacheArea(%g,%g,%g,%g): GeographicErr %s\n", a[0], a[1], a[2], a[3], e.what()); }
    catch (const std::exception& e) { std::printf("CacheArea(%g,%g,%g,%g): OTHER exception %s\n", a[0], a[1], a[2], a[3], e.what()); ++bad; }
  }
  return bad ? 1 : 0;
}
