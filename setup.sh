#!/bin/sh
# setup: offline; checks that the pre-installed tools are present and that the hand-written libm models agree with glibc
set -e
cd "$(dirname "$0")"
for t in cbmc goto-cc goto-instrument g++ python3 lean; do
  command -v $t >/dev/null 2>&1 || { echo "missing tool: $t"; exit 1; }
done
cbmc --version
python3 -m py_compile vlib/*.py check
mkdir -p out evidence
if [ -f tests/libm_conformance.c ]; then
  gcc -O1 -o out/libm_conformance tests/libm_conformance.c -lm && out/libm_conformance ${VERIF_SEED:-1}
fi
echo setup ok
