/* native counterparts of the predicates contract clauses use (replay only) */
#include <cmath>
#include <cstddef>
#include <cstring>
#include <cfloat>
#include <climits>
#include <string>
#ifndef VERIF_STRCAP
#define VERIF_STRCAP 32
#endif
typedef struct vstr { char *p; int len; } vstr;
#define VSTR_NPOS (~(size_t)0)
static int verif_thrown, verif_thrown_other;
static int verif_ghost_int, verif_ghost_int2;
static size_t verif_ghost_idx, verif_ghost_idx2, verif_ghost_idx3, verif_ghost_idx4;
static inline int verif_strlen(const char *s) { return (int)std::strlen(s); }
static inline int verif_toupper(int c) { return (c >= 'a' && c <= 'z') ? c - 'a' + 'A' : c; }
static inline int verif_tolower(int c) { return (c >= 'A' && c <= 'Z') ? c - 'A' + 'a' : c; }
static inline int verif_isdigit(int c) { return c >= '0' && c <= '9'; }
using std::isnan; using std::isinf; using std::isfinite; using std::signbit; using std::fabs; using std::floor; using std::copysign;
#define VERIF_NAN (std::nan(""))
#define VERIF_INF (HUGE_VAL)
#define _Bool bool
#define VERIF_SAME_D(a, b) (((a) == (b) && std::signbit(a) == std::signbit(b)) || (std::isnan(a) && std::isnan(b)))
#define VERIF_UP(c) ((char)verif_toupper(c))
static inline int verif_index_of(const char *s, char c) { for (int i = 0; s[i] != 0; ++i) if (s[i] == c) return i; return -1; }
static long long vm_last_k;
