/* Config.h used only by the native replay builds of /verif (static library, double precision) */
#define GEOGRAPHICLIB_VERSION_STRING "2.5"
#define GEOGRAPHICLIB_VERSION_MAJOR 2
#define GEOGRAPHICLIB_VERSION_MINOR 5
#define GEOGRAPHICLIB_VERSION_PATCH 0
#define GEOGRAPHICLIB_DATA "/usr/local/share/GeographicLib"
#define GEOGRAPHICLIB_HAVE_LONG_DOUBLE 1
#define GEOGRAPHICLIB_WORDS_BIGENDIAN 0
#define GEOGRAPHICLIB_PRECISION 2
#define GEOGRAPHICLIB_SHARED_LIB 0
