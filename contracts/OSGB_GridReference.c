/* Contract of  void OSGB::GridReference(real x, real y, int prec, std::string& gridref)   (src/OSGB.cpp)
 * Oracle: Ordnance Survey National Grid: 500 km squares lettered A..Z without I in a 5x5 array, row-major
 * from the north-west, the array's south-west corner at (-1000 km, -500 km); 100 km squares lettered the
 * same way inside each 500 km square; then prec digits of easting and prec digits of northing.  -- C18, C13 */
/*@ ghost */
static const char osgb_letters[] = "ABCDEFGHJKLMNOPQRSTUVWXYZ";
#define OGF_OK (!verif_thrown && !isnan(x) && !isnan(y))
#define OGF_G1 verif_ghost_idx
#define OGF_G2 verif_ghost_idx2
#define OGF_X0 (500000.0 * (double)(OGF_G1 % 5) - 1000000.0)
#define OGF_Y0 (500000.0 * (double)(4 - OGF_G1 / 5) - 500000.0)
#define OGF_ISLETTER(c) ((c) >= 'A' && (c) <= 'Z' && (c) != 'I')
/*@ clause pre.string src=call-site */
__CPROVER_requires(gridref->len >= 0 && gridref->len < VERIF_STRCAP && __CPROVER_rw_ok(gridref->p, VERIF_STRCAP))
/*@ clause pre.not_thrown src=call-site */
__CPROVER_requires(verif_thrown == 0)
/*@ clause frame src=property props=C13,C14 */
__CPROVER_assigns(gridref->len, __CPROVER_object_whole(gridref->p), verif_thrown)
/*@ clause post.throw_iff src=header props=C13,C18 */
__CPROVER_ensures((verif_thrown != 0) == (x < -1000000.0 || x >= 1500000.0 || y < -500000.0 || y >= 2000000.0 || prec < 0 || prec > 11))
/*@ clause post.no_other_exception src=property props=C13 */
__CPROVER_ensures(!verif_thrown_other)
/*@ clause post.throw_unchanged src=property props=C13 */
__CPROVER_ensures(!verif_thrown || (gridref->len == __CPROVER_old(gridref->len) &&
   gridref->p[verif_ghost_idx % VERIF_STRCAP] == __CPROVER_old(gridref->p[verif_ghost_idx % VERIF_STRCAP])))
/*@ clause post.nan_invalid src=property props=C13,C18 */
__CPROVER_ensures(verif_thrown || !(isnan(x) || isnan(y)) ||
   (gridref->len == 7 && gridref->p[0] == 'I' && gridref->p[1] == 'N' && gridref->p[2] == 'V' && gridref->p[3] == 'A' &&
    gridref->p[4] == 'L' && gridref->p[5] == 'I' && gridref->p[6] == 'D'))
/*@ clause post.length src=property props=C18 */
__CPROVER_ensures(!OGF_OK || gridref->len == 2 + 2 * prec)
/*@ clause post.letters_alphabet src=property props=C18 */
__CPROVER_ensures(!OGF_OK || (OGF_ISLETTER(gridref->p[0]) && OGF_ISLETTER(gridref->p[1])))
/*@ clause post.square500 src=standard props=C18 */
__CPROVER_ensures(!OGF_OK || !(OGF_G1 < 25) || gridref->p[0] != osgb_letters[OGF_G1] ||
   (OGF_X0 <= x && x < OGF_X0 + 500000.0 && OGF_Y0 <= y && y < OGF_Y0 + 500000.0))
/*@ clause post.square100 src=standard props=C18 */
__CPROVER_ensures(!OGF_OK || !(OGF_G1 < 25 && OGF_G2 < 25) || gridref->p[0] != osgb_letters[OGF_G1] || gridref->p[1] != osgb_letters[OGF_G2] ||
   (OGF_X0 + 100000.0 * (double)(OGF_G2 % 5) <= x && x < OGF_X0 + 100000.0 * (double)(OGF_G2 % 5 + 1) &&
    OGF_Y0 + 100000.0 * (double)(4 - OGF_G2 / 5) <= y && y < OGF_Y0 + 100000.0 * (double)(5 - OGF_G2 / 5)))
/*@ clause post.digits_alphabet src=property props=C18 */
__CPROVER_ensures(!OGF_OK || !(2 <= verif_ghost_idx3 && verif_ghost_idx3 < (size_t)gridref->len) ||
   (gridref->p[verif_ghost_idx3] >= '0' && gridref->p[verif_ghost_idx3] <= '9'))
/*@ clause post.terminated src=model */
__CPROVER_ensures(verif_thrown || gridref->p[gridref->len] == 0)
