/* Contract of the constructor  AlbersEqualArea::AlbersEqualArea(real a, real f, real stdlat, real k0)   (src/AlbersEqualArea.cpp; one standard parallel)
 * Source: C13 "Constructors reject non-finite or out-of-range ellipsoid, scale or latitude parameters with the library's exception". */
/*@ clause pre.not_thrown src=call-site */
__CPROVER_requires(verif_thrown == 0)
/*@ clause frame src=property */
__CPROVER_assigns(*self, verif_thrown)
/*@ clause post.rejects src=property props=C13 */
__CPROVER_ensures((verif_thrown != 0) == !(isfinite(a) && a > 0.0 && isfinite(f) && f < 1.0 && isfinite(k0) && k0 > 0.0 && fabs(stdlat) <= 90.0))
/*@ clause post.no_other_exception src=property props=C13 */
__CPROVER_ensures(!verif_thrown_other)
