/* Contract of  real Geoid::height(real lat, real lon) const   (src/Geoid.cpp)
 * Source: C20 "NaN for NaN input", "bit-for-bit independent of the object's history ... whether ... the thread-safe mode is in
 * use"; C14 (a geoid constructed as thread-safe writes no member); C13 (every raster index is inside the grid, no float->int
 * overflow).  Class invariant from the constructor (checked there against the file header, not re-verified here):
 * width even >= 2, height odd >= 3, _rlonres = width/360, _rlatres = (height-1)/180. */
/*@ uses Geoid_rawval */
/*@ ghost */
#define GH_INV (self->_width >= 2 && self->_width % 2 == 0 && self->_width <= 1000000 && self->_height >= 3 && self->_height % 2 == 1 && self->_height <= 1000001 && \
                self->_rlonres == self->_width / 360.0 && self->_rlatres == (self->_height - 1) / 180.0)
/*@ clause pre.invariant src=constructor */
__CPROVER_requires(GH_INV && verif_thrown == 0)
/*@ clause frame src=property props=C14,C20 */
__CPROVER_assigns(verif_thrown;
                  !self->_threadsafe: self->_ix, self->_iy, self->_v00, self->_v01, self->_v10, self->_v11, __CPROVER_object_whole(self->_t))
/*@ clause post.no_other_exception src=property props=C13 */
__CPROVER_ensures(!verif_thrown_other)
/*@ clause post.nan src=property props=C20,C13 */
__CPROVER_ensures(!(isnan(lat) || isnan(lon) || fabs(lat) > 90.0) || (isnan(__CPROVER_return_value) && !verif_thrown))
