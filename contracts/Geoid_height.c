/* Contract of  real Geoid::height(real lat, real lon) const   (src/Geoid.cpp)
 * Source: C20 "NaN for NaN input", "bit-for-bit independent of the object's history ... whether ... the thread-safe mode is in
 * use"; C14 (a geoid constructed as thread-safe writes no member); C13 (every raster index is inside the grid, no float->int
 * overflow).  Class invariant from the constructor (checked there against the file header, not re-verified here):
 * width even >= 2, height odd >= 3, _rlonres = width/360, _rlatres = (height-1)/180. */
/*@ uses Geoid_rawval */
/*@ capture-before double a = (1 - fx) * v00 :: cap_fx=fx:double cap_fy=fy:double cap_v00=v00:double cap_v01=v01:double cap_v10=v10:double cap_v11=v11:double cap_ix=ix:int cap_iy=iy:int */
/*@ ghost */
#define GH_INV (self->_width >= 2 && self->_width % 2 == 0 && self->_width <= 1000000 && self->_height >= 3 && self->_height % 2 == 1 && self->_height <= 1000001 && \
                self->_rlonres == self->_width / 360.0 && self->_rlatres == (self->_height - 1) / 180.0)
/*@ clause pre.invariant src=constructor */
__CPROVER_requires(GH_INV && verif_thrown == 0)
/*@ clause frame src=property props=C14,C20 */
__CPROVER_assigns(verif_thrown, cap_fx, cap_fy, cap_v00, cap_v01, cap_v10, cap_v11, cap_ix, cap_iy;
                  !self->_threadsafe: self->_ix, self->_iy, self->_v00, self->_v01, self->_v10, self->_v11, __CPROVER_object_upto(self->_t, sizeof(self->_t)))
/*@ clause post.no_other_exception src=property props=C13 */
__CPROVER_ensures(!verif_thrown_other)
/*@ clause post.nan src=property props=C20,C13 */
__CPROVER_ensures(!(isnan(lat) || isnan(lon) || fabs(lat) > 90.0) || (isnan(__CPROVER_return_value) && !verif_thrown))
/*@ harness-alt history */
/* Lemma (C20 "bit-for-bit independent of the object's history"), bilinear interpolation, ONE call on an object whose cell cache is
   arbitrary but consistent (representation invariant: the cached cell index is the constructor's sentinel / out of range, or the four
   cached values are the raster values of that cell), in either threading mode:
     (1) the four values that enter the interpolation are the raster values of the cell (ix, iy) -- whichever path (cache hit, cache
         miss, thread-safe) supplied them;
     (2) the cache is consistent afterwards (so the invariant holds along every history).
   ix, iy, fx, fy are computed from lat, lon and immutable members before the first read of a mutable member (Geoid.cpp, first ten lines of
   height), and h is straight-line arithmetic on (fx, fy, the four values, _offset, _scale): so the height is a function of the position and the
   raster alone.  That last step is an argument about data flow made here in prose, not an obligation; a two-call harness comparing the two
   heights bit for bit was tried and did not finish (two copies of the same floating-point circuit must be proved equal). */
#define GEOID_PIX(i, j) __CPROVER_uninterpreted_geoid_pix(i, j)
#define GEOID_PIXOK(v) (0.0 <= (v) && (v) <= 4294967295.0 && !signbit(v))
#define GEOID_CACHE_OK(g) ((g)._threadsafe || (g)._ix < 0 || (g)._ix >= (g)._width || (g)._iy < -1 || (g)._iy > (g)._height - 2 || \
   (GEOID_PIXOK((g)._v00) && GEOID_PIXOK((g)._v01) && GEOID_PIXOK((g)._v10) && GEOID_PIXOK((g)._v11) && (g)._v00 == GEOID_PIX((g)._ix, (g)._iy) && \
    (g)._v01 == GEOID_PIX((g)._ix + 1, (g)._iy) && (g)._v10 == GEOID_PIX((g)._ix, (g)._iy + 1) && (g)._v11 == GEOID_PIX((g)._ix + 1, (g)._iy + 1)))
void h_Geoid_height(void) {
  VERIF_GHOST_INIT
  struct Geoid nondet_struct_Geoid(void);
  struct Geoid in_a = nondet_struct_Geoid();
  __CPROVER_assume(!in_a._cubic);
  /* class invariant established by the constructor (the precondition of the contract above) */
  __CPROVER_assume(in_a._width >= 2 && in_a._width % 2 == 0 && in_a._width <= 1000000 && in_a._height >= 3 && in_a._height % 2 == 1 && in_a._height <= 1000001 &&
                   in_a._rlonres == in_a._width / 360.0 && in_a._rlatres == (in_a._height - 1) / 180.0);
  __CPROVER_assume(GEOID_CACHE_OK(in_a));
  double in_lat = nondet_double(), in_lon = nondet_double();
  verif_thrown = 0; verif_thrown_other = 0;
  double ha = Geoid_height(&in_a, in_lat, in_lon);
  _Bool nanpos = isnan(in_lat) || isnan(in_lon) || isinf(in_lon) || fabs(in_lat) > 90.0;
  __CPROVER_assert(!nanpos || verif_thrown || isnan(ha), "lemma.nan_position");
#ifdef GEOID_RANGE_LEMMAS
  __CPROVER_assert(verif_thrown || nanpos || (0 <= cap_ix && cap_ix < in_a._width && -1 <= cap_iy && cap_iy <= in_a._height - 2), "lemma.cell_in_grid");   /* row -1: 90 * _rlatres may round up; rawval reflects it at the pole */
#endif
  __CPROVER_assert(verif_thrown || nanpos || (cap_v00 == GEOID_PIX(cap_ix, cap_iy) && cap_v01 == GEOID_PIX(cap_ix + 1, cap_iy) &&
                                              cap_v10 == GEOID_PIX(cap_ix, cap_iy + 1) && cap_v11 == GEOID_PIX(cap_ix + 1, cap_iy + 1)), "lemma.values_are_raster_values");
#ifdef GEOID_RANGE_LEMMAS
  __CPROVER_assert(verif_thrown || nanpos || (0.0 <= cap_fx && cap_fx <= 1.0 && 0.0 <= cap_fy && cap_fy <= 1.0 + 1e-9), "lemma.weights_in_unit_interval");   /* at the south pole fy can exceed 1 by rounding */
#endif
  __CPROVER_assert(verif_thrown || GEOID_CACHE_OK(in_a), "lemma.cache_consistent_after");
  __CPROVER_assert(0, "canary: end of harness reachable");
}
