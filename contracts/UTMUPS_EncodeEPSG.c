/* Contract of  int UTMUPS::EncodeEPSG(int zone, bool northp).  Oracle: EPSG registry (see UTMUPS_DecodeEPSG.c). -- C04 */
/*@ clause frame src=property props=C14 */
__CPROVER_assigns()
/*@ clause post.code src=standard props=C04 */
__CPROVER_ensures(__CPROVER_return_value == (zone == 0 ? (northp ? 32661 : 32761) : (1 <= zone && zone <= 60) ? (northp ? 32600 : 32700) + zone : -1))
