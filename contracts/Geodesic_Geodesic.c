/* Contract of the constructor  Geodesic::Geodesic(real a, real f, bool exact)   (src/Geodesic.cpp)
 * Source: C13 "Constructors reject non-finite or out-of-range ellipsoid ... parameters with the library's exception".
 * DROPPED by the job (stated in the evidence): the initialiser of the member object _geodexact and the statement copying its _c2
 * (construction of the exact delegate, another class); with exact = true the validation is that delegate's and is not decided here.
 * A3coeff / C3coeff / C4coeff are called by contract (each is verified on its own). */
/*@ clause pre.not_thrown src=call-site */
__CPROVER_requires(verif_thrown == 0)
/*@ clause frame src=property */
__CPROVER_assigns(self->maxit2_, self->tiny_, self->tol0_, self->tol1_, self->tol2_, self->tolb_, self->xthresh_, self->_a, self->_f, self->_exact,
                  self->_f1, self->_e2, self->_ep2, self->_n, self->_b, self->_c2, self->_etol2,
                  __CPROVER_object_upto(self->_aA3x, sizeof(self->_aA3x)), __CPROVER_object_upto(self->_cC3x, sizeof(self->_cC3x)), __CPROVER_object_upto(self->_cC4x, sizeof(self->_cC4x)), verif_thrown)
/*@ clause post.rejects_radius src=property props=C13 */
__CPROVER_ensures(exact || (isfinite(a) && a > 0.0) || verif_thrown)
/*@ clause post.rejects_flattening src=property props=C13 */
/* the polar semi-axis b = a (1 - f) must be positive and finite: every f >= 1, NaN or -infinity is refused */
__CPROVER_ensures(exact || (isfinite(f) && f < 1.0) || verif_thrown)
/*@ clause post.rejects_iff src=code props=C13 */
__CPROVER_ensures(exact || ((verif_thrown != 0) == !(isfinite(a) && a > 0.0 && isfinite(self->_b) && self->_b > 0.0)))
/*@ clause post.accepts src=property props=C13 */
/* an ordinary ellipsoid is accepted: a in [1e-100, 1e100], f in [-1e10, 0.999999] (then b is a positive normal number) */
__CPROVER_ensures(exact || !(1e-100 <= a && a <= 1e100 && -1e10 <= f && f <= 0.999999) || !verif_thrown)
/*@ clause post.no_other_exception src=property props=C13 */
__CPROVER_ensures(!verif_thrown_other)
/*@ clause post.stores src=constructor props=C13 */
__CPROVER_ensures(verif_thrown || exact || (self->_a == a && self->_f == f && !self->_exact))
/*@ clause post.invariant src=constructor props=C12,C01 */
/* the class invariant that GenDirect and the line constructors take as their precondition (so it is established, not merely assumed) */
__CPROVER_ensures(verif_thrown || exact || (self->_f1 > 0.0 && !isinf(self->_f1) && self->tiny_ > 0.0 && !self->_exact))
