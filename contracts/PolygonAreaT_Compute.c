/* Contract of  unsigned PolygonAreaT<Geodesic>::Compute(bool reverse, bool sign, real& perimeter, real& area) const   (src/PolygonArea.cpp)
 * Source: C08: the result closes the polygon with ONE more edge -- from the current vertex back to the first -- on a copy of the sums:
 * the object is not changed (const; C14), the perimeter is the perimeter sum plus the closing length, the area is the area sum plus the
 * closing area term, reduced with the crossing count plus the closing edge's crossings and the caller's conventions; fewer than two
 * vertices give zero; a polyline is not closed and reports no area.
 * REWRITES (R16, operator definitions checked): acc() -> acc._s, acc(y) -> Accumulator::Sum(y), `Accumulator<> tempsum(_areasum)` -> struct copy,
 * `tempsum += S12` -> Accumulator::Add, AreaReduce(tempsum, ...) -> the Accumulator instantiation (assumed contract). */
/*@ uses PolygonArea_common */
/*@ clause pre.invariant src=constructor */
__CPROVER_requires(PA_SMALL && PA_MASK_OK)
/*@ clause frame src=property props=C08,C14 */
__CPROVER_assigns(*perimeter; !self->_polyline: *area; PA_GHOSTS_GI, PA_GHOSTS_ACC, PA_GHOSTS_AR, g_AccSum_calls, g_AccSum_obj, g_AccSum_y, g_AccSum_ret)
/*@ clause post.count src=property props=C08 */
__CPROVER_ensures(__CPROVER_return_value == self->_num)
/*@ clause post.degenerate src=property props=C08 */
__CPROVER_ensures(self->_num >= 2 || (*perimeter == 0.0 && (self->_polyline || *area == 0.0) && g_GI_calls == 0 && g_AR_calls == 0))
/*@ clause post.polyline src=property props=C08 */
__CPROVER_ensures(self->_num < 2 || !self->_polyline || (VERIF_SAME_D(*perimeter, self->_perimetersum._s) && g_GI_calls == 0 && g_AR_calls == 0))
/*@ clause post.closing_edge src=property props=C08 */
__CPROVER_ensures(self->_num < 2 || self->_polyline ||
   (g_GI_calls == 1 && VERIF_SAME_D(g_GI_lat1[0], self->_lat1) && VERIF_SAME_D(g_GI_lon1[0], self->_lon1) && VERIF_SAME_D(g_GI_lat2[0], self->_lat0) &&
    VERIF_SAME_D(g_GI_lon2[0], self->_lon0) && g_GI_mask[0] == self->_mask))
/*@ clause post.perimeter src=property props=C08 */
__CPROVER_ensures(self->_num < 2 || self->_polyline ||
   (g_AccSum_calls == 1 && g_AccSum_obj == (const void *)&self->_perimetersum && VERIF_SAME_D(g_AccSum_y, g_GI_s12[0]) && VERIF_SAME_D(*perimeter, g_AccSum_ret)))
/*@ clause post.area_term src=property props=C08 */
__CPROVER_ensures(self->_num < 2 || self->_polyline || (g_Acc_calls == 1 && VERIF_SAME_D(g_Acc_y[0], g_GI_S12[0]) && g_AR_calls == 1))
/*@ clause post.area_sum src=property props=C08 */
/* (for numbers: NaNs of different payload are different arguments of the uninterpreted sum function) */
__CPROVER_ensures(self->_num < 2 || self->_polyline || isnan(g_GI_S12[0]) || isnan(self->_areasum._s) || isnan(self->_areasum._t) ||
    VERIF_SAME_D(g_AR_in, __CPROVER_uninterpreted_Acc_s(self->_areasum._s, self->_areasum._t, g_GI_S12[0])))
/*@ clause post.crossings src=property props=C08 */
__CPROVER_ensures(self->_num < 2 || self->_polyline ||
    (g_AR_crossings == self->_crossings + __CPROVER_uninterpreted_transit(self->_lon1, self->_lon0) && g_AR_reverse == reverse && g_AR_sign == sign))
/*@ clause post.area src=property props=C08 */
__CPROVER_ensures(self->_num < 2 || self->_polyline || VERIF_SAME_D(*area, 0.0 + g_AR_out))
