/* Contract of  Math::real GeodesicLineExact::GenPosition(bool arcmode, real s12_a12, unsigned outmask, real& lat2, real& lon2,
 *                real& azi2, real& s12, real& m12, real& M12, real& M21, real& S12) const      (src/GeodesicLineExact.cpp)
 * Source and clauses: as GeodesicLine_GenPosition.c (C12 frame over all masks and capabilities, NaN rule; C01 ranges; C14).
 * The elliptic-function object and the area series are assumed callee contracts (frame only). */
/*@ ghost */
#define GPX_CAN (self->_caps != 0U && (arcmode || (self->_caps & (0xFF80U & DISTANCE_IN)) != 0U))
#define GPX_ON(bit) (GPX_CAN && (outmask & self->_caps & 0xFF80U & (bit)) != 0U)
/*@ clause pre.line_invariant src=LineInit */
__CPROVER_requires(self->_f1 > 0.0 && !isinf(self->_f1) && self->tiny_ > 0.0 &&
                   self->_nC4 >= 0 && self->_cC4a.n == self->_nC4 && (self->_nC4 == 0 || __CPROVER_r_ok(self->_cC4a.p, (size_t)self->_nC4 * sizeof(double))))
/*@ clause frame src=property props=C12,C14 */
__CPROVER_assigns(GPX_ON(LATITUDE): *lat2; GPX_ON(LONGITUDE): *lon2; GPX_ON(AZIMUTH): *azi2; GPX_ON(DISTANCE): *s12;
                  GPX_ON(REDUCEDLENGTH): *m12; GPX_ON(GEODESICSCALE): *M12; GPX_ON(GEODESICSCALE): *M21; GPX_ON(AREA): *S12)
/*@ clause post.nan_if_cannot src=property props=C12,C13 */
__CPROVER_ensures(GPX_CAN || isnan(__CPROVER_return_value))
/*@ clause post.arc_returned src=header props=C12 */
__CPROVER_ensures(!GPX_CAN || !arcmode || VERIF_SAME_D(__CPROVER_return_value, s12_a12))
/*@ clause post.distance_passthrough src=header props=C12 */
__CPROVER_ensures(!GPX_ON(DISTANCE) || arcmode || VERIF_SAME_D(*s12, s12_a12))
/*@ clause post.azimuth_range src=property props=C01 */
__CPROVER_ensures(!GPX_ON(AZIMUTH) || isnan(*azi2) || (-180.0 <= *azi2 && *azi2 <= 180.0))
/*@ clause post.latitude_range src=property props=C01 */
__CPROVER_ensures(!GPX_ON(LATITUDE) || isnan(*lat2) || (-90.0 <= *lat2 && *lat2 <= 90.0))
/*@ clause post.longitude_range src=property props=C01 */
__CPROVER_ensures(!GPX_ON(LONGITUDE) || (outmask & LONG_UNROLL) != 0U || isnan(*lon2) || (-180.0 <= *lon2 && *lon2 <= 180.0))
/*@ harness-pre */
  /* the area-series coefficients live in a std::vector (R17: pointer + length); this function only passes them on to DST::integral */
  double c4_[64]; for (int i_ = 0; i_ < 64; ++i_) c4_[i_] = nondet_double();
  in_self._cC4a.p = c4_;
  __CPROVER_assume(in_self._nC4 >= 0 && in_self._nC4 <= 64 && in_self._cC4a.n == in_self._nC4);
