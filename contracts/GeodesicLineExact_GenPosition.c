/* ASSUMED contract of  Math::real GeodesicLineExact::GenPosition(...) const  when reached by delegation from
 * GeodesicLine::GenPosition (exact = true).  Frame only: it may write any of its eight outputs. */
/*@ clause frame src=assumed */
__CPROVER_assigns(*lat2, *lon2, *azi2, *s12, *m12, *M12, *M21, *S12)
