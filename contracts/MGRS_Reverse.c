/* Contract of  void MGRS::Reverse(const std::string& mgrs, int& zone, bool& northp, real& x, real& y, int& prec, bool centerp)
 * Oracle: MGRS string syntax and letter tables as in MGRS_Forward.c.  -- C05, C13 */
/*@ ghost */
static const char mr_latband[] = "CDEFGHJKLMNPQRSTUVWX";
static const char mr_utmrow[] = "ABCDEFGHJKLMNPQRSTUV";
static const char mr_utmcols[3][9] = { "ABCDEFGH", "JKLMNPQR", "STUVWXYZ" };
#define MR_LEN (mgrs->len)
#define MR_C(i) VERIF_UP(mgrs->p[i])
#define MR_ISD(i) (mgrs->p[i] >= '0' && mgrs->p[i] <= '9')
#define MR_INV (MR_LEN >= 3 && MR_C(0) == 'I' && MR_C(1) == 'N' && MR_C(2) == 'V')
#define MR_ACC (!verif_thrown && !MR_INV)
/* number of leading digits, as far as it matters (3 stands for "3 or more") */
#define MR_D (MR_LEN >= 1 && MR_ISD(0) ? (MR_LEN >= 2 && MR_ISD(1) ? (MR_LEN >= 3 && MR_ISD(2) ? 3 : 2) : 1) : 0)
#define MR_ZONEVAL (MR_D == 0 ? 0 : MR_D == 1 ? mgrs->p[0] - '0' : (mgrs->p[0] - '0') * 10 + (mgrs->p[1] - '0'))
#define MR_IS24(c) ((c) >= 'A' && (c) <= 'Z' && (c) != 'I' && (c) != 'O')
#define MR_BAND MR_C(MR_D)
#define MR_XOK(u, n, v) ((u) ? (100000.0 <= (v) && (v) < 900000.0) : (n) ? (1300000.0 <= (v) && (v) < 2700000.0) : (800000.0 <= (v) && (v) < 3200000.0))
#define MR_YOK(u, n, v) ((u) ? ((n) ? (0.0 <= (v) && (v) < 9500000.0) : (1000000.0 <= (v) && (v) < 10000000.0)) : (n) ? (1300000.0 <= (v) && (v) < 2700000.0) : (800000.0 <= (v) && (v) < 3200000.0))
/* harness-side digit test used by the case split of jobs.py (the string is NUL-terminated, so index <= len is safe) */
#define MRH_ISD(i) (in_mgrs.len > (i) && in_mgrs_buf[i] >= '0' && in_mgrs_buf[i] <= '9')
/*@ clause pre.string src=call-site */
__CPROVER_requires(verif_thrown == 0 && mgrs->len >= 0 && mgrs->len < VERIF_STRCAP && __CPROVER_r_ok(mgrs->p, VERIF_STRCAP) && mgrs->p[mgrs->len] == 0)
/*@ clause frame src=property props=C13,C14 */
__CPROVER_assigns(*zone, *northp, *x, *y, *prec, verif_thrown)
/*@ clause post.no_other_exception src=property props=C13 */
__CPROVER_ensures(!verif_thrown_other)
/*@ clause post.throw_unchanged src=property props=C13,C05 */
__CPROVER_ensures(!verif_thrown || (*zone == __CPROVER_old(*zone) && *northp == __CPROVER_old(*northp) &&
   VERIF_SAME_D(*x, __CPROVER_old(*x)) && VERIF_SAME_D(*y, __CPROVER_old(*y)) && *prec == __CPROVER_old(*prec)))
/*@ clause post.invalid src=property props=C05,C13 */
__CPROVER_ensures(!MR_INV || (!verif_thrown && *zone == -4 && !*northp && isnan(*x) && isnan(*y) && *prec == -2))
/* The remaining postconditions are checked as named assertions at the harness boundary (the string structure D, the
   zone value etc. are computed once there); MGRS::Reverse is not a callee of any other function under contract, so
   nothing needs them in __CPROVER_ensures form.  Their text is also what the native replay evaluates. */
/*@ harness-post */
  {
    const char *b_ = in_mgrs_buf; int n_ = in_mgrs.len;
#define ISD_(i) (b_[i] >= '0' && b_[i] <= '9')
#define UP_(i) VERIF_UP(b_[i])
    int inv_ = n_ >= 3 && UP_(0) == 'I' && UP_(1) == 'N' && UP_(2) == 'V';
    int D_ = (n_ >= 1 && ISD_(0)) ? ((n_ >= 2 && ISD_(1)) ? ((n_ >= 3 && ISD_(2)) ? 3 : 2) : 1) : 0;
    int zv_ = D_ == 0 ? 0 : D_ == 1 ? b_[0] - '0' : (b_[0] - '0') * 10 + (b_[1] - '0');
    int acc_ = !verif_thrown && !inv_;
    if (acc_) {
      __CPROVER_assert(D_ <= 2 && in_zone == zv_ && (D_ == 0 || (1 <= in_zone && in_zone <= 60)) && n_ > D_, "post.accept_zone");
      char band_ = UP_(D_ <= 2 ? D_ : 0);
      __CPROVER_assert(in_zone != 0 ? (band_ >= 'C' && band_ <= 'X' && MR_IS24(band_) && in_northp == (band_ >= 'N'))
                                    : ((band_ == 'A' || band_ == 'B' || band_ == 'Y' || band_ == 'Z') && in_northp == (band_ >= 'Y')), "post.accept_band");
      __CPROVER_assert(n_ == D_ + 1 ? in_prec == -1
                       : (n_ >= D_ + 3 && (n_ - D_ - 3) % 2 == 0 && in_prec == (n_ - D_ - 3) / 2 && in_prec <= 11), "post.accept_structure");
      if (D_ <= 2 && n_ >= D_ + 3) {
        char col_ = UP_(D_ + 1), row_ = UP_(D_ + 2);
        __CPROVER_assert(MR_IS24(col_) && MR_IS24(row_), "post.accept_block_alphabet");
        size_t g_ = verif_ghost_idx;
        if ((size_t)(D_ + 3) <= g_ && g_ < (size_t)n_) __CPROVER_assert(ISD_(g_), "post.accept_digits");
#ifdef MR_VALUES
        if (in_zone != 0 && in_prec == 0) {
          size_t k_ = verif_ghost_idx2, r_ = verif_ghost_idx3; int q_ = verif_ghost_int;
          if (k_ < 8 && col_ == mr_utmcols[(in_zone - 1) % 3][k_])
            __CPROVER_assert(in_x == 100000.0 * (double)(k_ + 1) + (in_centerp ? 50000.0 : 0.0), "post.column_value");
          if (r_ < 20 && row_ == mr_utmrow[r_] && q_ >= 0 && q_ <= 4 && 2000000.0 * q_ <= in_y && in_y < 2000000.0 * (q_ + 1))
            __CPROVER_assert(in_y == 2000000.0 * q_ + 100000.0 * (double)((r_ + 20 - ((in_zone - 1) % 2 ? 5 : 0)) % 20) + (in_centerp ? 50000.0 : 0.0), "post.row_value");
        }
#endif
      }
      /* closure: what is accepted lies in the ranges the forward conversion accepts (hemisphere's own convention) */
#ifdef MR_VALUES
      if (in_prec <= 0)
        __CPROVER_assert(MR_XOK(in_zone != 0, in_northp, in_x) && MR_YOK(in_zone != 0, in_northp, in_y), "post.closed_range");
#endif
#ifdef MR_VALUES_DIGITS
      if (in_prec > 0)
        __CPROVER_assert(MR_XOK(in_zone != 0, in_northp, in_x) && MR_YOK(in_zone != 0, in_northp, in_y), "post.closed_range_digits");
#endif
    }
  }
