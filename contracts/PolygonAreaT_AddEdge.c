/* Contract of  void PolygonAreaT<Geodesic>::AddEdge(real azi, real s)   (src/PolygonArea.cpp)
 * Source: C08 edit history: an edge given by azimuth and length from the current vertex: the direct problem is asked from the current
 * vertex (distance mode, the object's mask), s goes to the perimeter sum, S12 to the area sum, the crossing count of the UNROLLED
 * longitude change to the crossing count (polygons only), the end point becomes the current vertex; without a starting point nothing happens. */
/*@ uses PolygonArea_common */
/*@ ghost */
#define PA_OLD_NUM __CPROVER_old(self->_num)
/*@ clause pre.invariant src=constructor */
__CPROVER_requires(PA_SMALL && PA_MASK_OK && PA_SOLVER_OK)
/*@ clause frame src=property props=C08 */
__CPROVER_assigns(self->_num, self->_crossings, self->_areasum, self->_perimetersum, self->_lat1, self->_lon1, PA_GHOSTS_GD, PA_GHOSTS_ACC)
/*@ clause post.no_start src=property props=C08 */
__CPROVER_ensures(PA_OLD_NUM != 0 || (self->_num == 0 && g_GD_calls == 0 && g_Acc_calls == 0 && self->_crossings == __CPROVER_old(self->_crossings) &&
                  VERIF_SAME_D(self->_lat1, __CPROVER_old(self->_lat1)) && VERIF_SAME_D(self->_lon1, __CPROVER_old(self->_lon1)) &&
                  PA_SAME_ACC(self->_areasum, __CPROVER_old(self->_areasum)) && PA_SAME_ACC(self->_perimetersum, __CPROVER_old(self->_perimetersum))))
/*@ clause post.count src=property props=C08 */
__CPROVER_ensures(PA_OLD_NUM == 0 || self->_num == PA_OLD_NUM + 1)
/*@ clause post.one_edge src=property props=C08 */
__CPROVER_ensures(PA_OLD_NUM == 0 ||
   (g_GD_calls == 1 && VERIF_SAME_D(g_GD_lat1, __CPROVER_old(self->_lat1)) && VERIF_SAME_D(g_GD_lon1, __CPROVER_old(self->_lon1)) && VERIF_SAME_D(g_GD_azi1, azi) &&
    !g_GD_arcmode && VERIF_SAME_D(g_GD_s12_a12, s) && g_GD_mask == self->_mask &&
    VERIF_SAME_D(self->_lat1, g_GD_lat2) && VERIF_SAME_D(self->_lon1, g_GD_lon2)))
/*@ clause post.perimeter_term src=property props=C08 */
__CPROVER_ensures(PA_OLD_NUM == 0 || (g_Acc_calls == (self->_polyline ? 1U : 2U) && g_Acc_obj[0] == (const void *)&self->_perimetersum && VERIF_SAME_D(g_Acc_y[0], s)))
/*@ clause post.area_and_crossings src=property props=C08 */
__CPROVER_ensures(PA_OLD_NUM == 0 ||
   (self->_polyline ? (self->_crossings == __CPROVER_old(self->_crossings) && PA_SAME_ACC(self->_areasum, __CPROVER_old(self->_areasum)))
                    : (g_Acc_obj[1] == (const void *)&self->_areasum && VERIF_SAME_D(g_Acc_y[1], g_GD_S12) &&
                       self->_crossings == __CPROVER_old(self->_crossings) + __CPROVER_uninterpreted_transitdirect(__CPROVER_old(self->_lon1), self->_lon1))))
