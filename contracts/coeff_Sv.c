/* Contract of  Math::real SphericalEngine::coeff::Sv(int k, int n, int m, real f) const   (SphericalEngine.hpp, inline)
 * Source: C19 "for every coefficient set ... truncation": a coefficient set stored up to degree N = _nNx may be USED only up to degree
 * _nmx and order _mmx; terms beyond the used degree or order contribute zero, the others are the stored sine coefficient (slot k,
 * the sine vector omitting the m = 0 column, hence the offset N + 1) times the scale factor. */
/*@ ghost */
#define SV_IN (m <= self->_mmx && n <= self->_nmx)
/*@ clause pre.slot src=call-site */
__CPROVER_requires(self->_nNx >= -1 && self->_nNx <= 32767 && k >= self->_nNx + 1 && k <= 1000000000 &&
                   __CPROVER_r_ok(self->_sSnm + (k - (self->_nNx + 1)), sizeof(double)))
/*@ clause frame src=property props=C14 */
__CPROVER_assigns()
/*@ clause post.truncation src=property props=C19 */
/* beyond the used degree or order: exactly zero */
__CPROVER_ensures((m <= self->_mmx && n <= self->_nmx) || __CPROVER_return_value == 0)
/*@ clause post.stored_value src=property props=C19 */
/* inside: the stored coefficient times f -- stated for f == 1 (the product itself is one multiplication; restating it would make the
   solver prove two multiplier circuits equal) */
__CPROVER_ensures(!(m <= self->_mmx && n <= self->_nmx) || f != 1.0 || VERIF_SAME_D(__CPROVER_return_value, self->_sSnm[k - (self->_nNx + 1)]))
/*@ harness-pre */
  /* the iterator member points into a coefficient vector; the slot addressed lies inside it */
  double vec_[8]; for (int i_ = 0; i_ < 8; ++i_) vec_[i_] = nondet_double();
  in_self._sSnm = vec_;
  __CPROVER_assume(in_self._nNx >= -1 && in_self._nNx <= 32767 && in_k >= (in_self._nNx + 1) && in_k - (in_self._nNx + 1) < 8);
