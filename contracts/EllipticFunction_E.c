/* ASSUMED contract of the inline accessor  Math::real EllipticFunction::E() const  (complete elliptic integral stored by Reset: numeric,
 * C15 is not applicable).  Frame only: writes nothing. */
/*@ clause frame src=assumed */
__CPROVER_requires(1)
__CPROVER_assigns()
__CPROVER_ensures(1)
