/* Contract of  Accumulator& Accumulator<T>::remainder(T y)   (Accumulator.hpp, T = double; used by PolygonAreaT::AreaReduce to fold the
 * accumulated area into one ellipsoid area).  Source: C16 (Accumulator), C08.  Enforced on its own (job Accumulator.remainder) with
 * Accumulator::Add replaced by its contract: the frame is the two words of the accumulator; exactly one renormalising Add(0) follows the
 * reduction of the leading word (ghost record); a NaN word or modulus gives a NaN sum. */
/*@ clause frame src=property props=C14 only=enforce */
__CPROVER_assigns(self->_s, self->_t, vm_last_k, g_Acc_calls, __CPROVER_object_whole(g_Acc_obj), __CPROVER_object_whole(g_Acc_y))
/*@ clause post.renormalised src=property props=C16 only=enforce */
/* the result went through exactly one Add(0) on this accumulator */
__CPROVER_ensures(g_Acc_calls == 1 && g_Acc_obj[0] == (const void *)self && g_Acc_y[0] == 0.0)
/*@ clause post.nan src=property props=C16,C13 only=enforce */
__CPROVER_ensures(!(isnan(y) || isnan(__CPROVER_old(self->_s)) || isnan(__CPROVER_old(self->_t))) || isnan(self->_s))
/*@ clause post.returns_self src=property only=enforce */
__CPROVER_ensures(__CPROVER_return_value == self)
/*@ clause post.value src=property props=C16,C08 only=enforce */
/* value clause where the reduction is exact (remainder model for 720 and 360): the LEADING word is reduced by the IEEE remainder, the
 * trailing word is kept, and the pair is renormalised by Add(0): [1000, t] mod 720 -> Add applied to [280, t]; [-200, t] mod 360 -> [160, t] */
__CPROVER_ensures(!(y == 720.0 && __CPROVER_old(self->_s) == 1000.0) ||
                  (VERIF_SAME_D(self->_s, __CPROVER_uninterpreted_Acc_s(280.0, __CPROVER_old(self->_t), 0.0)) &&
                   VERIF_SAME_D(self->_t, __CPROVER_uninterpreted_Acc_t(280.0, __CPROVER_old(self->_t), 0.0))))
__CPROVER_ensures(!(y == 360.0 && __CPROVER_old(self->_s) == -200.0) ||
                  (VERIF_SAME_D(self->_s, __CPROVER_uninterpreted_Acc_s(160.0, __CPROVER_old(self->_t), 0.0)) &&
                   VERIF_SAME_D(self->_t, __CPROVER_uninterpreted_Acc_t(160.0, __CPROVER_old(self->_t), 0.0))))
