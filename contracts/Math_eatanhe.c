/* ASSUMED contract of  template<typename T> T Math::eatanhe(T x, T es)   (src/Math.cpp; numeric, body not verified here).
 * Pure: writes nothing.  The value is left unconstrained. */
/*@ clause frame src=assumed */
__CPROVER_requires(1)
__CPROVER_assigns()
__CPROVER_ensures(1)
