/* Lemma over the two EPSG contracts (callees replaced by their contracts, not their bodies):
 * DecodeEPSG(EncodeEPSG(z, n)) == (z, n) for every zone 0..60, and EncodeEPSG(DecodeEPSG(e)) == e for every valid code,
 * -1 / INVALID otherwise.  -- C04 "EPSG codes round-trip" */
/*@ harness */
void h_UTMUPS_EPSG_roundtrip(void) {
  int in_zone = nondet_int(); _Bool in_northp = nondet_bool(); int in_epsg = nondet_int();
  int z2; _Bool n2;
  int e = UTMUPS_EncodeEPSG(in_zone, in_northp);
  UTMUPS_DecodeEPSG(e, &z2, &n2);
  __CPROVER_assert(!(0 <= in_zone && in_zone <= 60) || (z2 == in_zone && (n2 != 0) == (in_northp != 0)), "lemma.decode_encode");
  __CPROVER_assert((0 <= in_zone && in_zone <= 60) || (e == -1 && z2 == -4), "lemma.invalid_zone");
  int z3; _Bool n3;
  UTMUPS_DecodeEPSG(in_epsg, &z3, &n3);
  int e3 = UTMUPS_EncodeEPSG(z3, n3);
  __CPROVER_assert(z3 == -4 ? e3 == -1 : e3 == in_epsg, "lemma.encode_decode");
  __CPROVER_assert(0, "canary: end of harness reachable");
}
