/* Contract of  void GeodesicLineExact::LineInit(const GeodesicExact& g, real lat1, real lon1, real azi1, real salp1, real calp1, unsigned caps)
 * (src/GeodesicLineExact.cpp).  Source: C12 / C01 as GeodesicLine_LineInit.c.
 * DROPPED by the job's rewrites (stated in the evidence): construction of the I4Integrand functor and the FFT that fills the area-series
 * coefficients (values not modelled); vector::resize becomes an allocation of that many doubles, so the size handed to DST::integral is
 * checked against what was allocated. */
/*@ clause pre.solver src=class-invariant only=enforce */
/* GeodesicExact fixes the number of area-series terms _nC4 in its constructor from a table of DST sizes (all below 2^20) */
__CPROVER_requires(0 <= g->_nC4 && g->_nC4 <= 1048576)
/*@ clause frame src=property */
__CPROVER_assigns(*self)
/*@ clause post.caps src=header props=C12,C01 */
__CPROVER_ensures(self->_caps == (caps | LATITUDE | AZIMUTH | LONG_UNROLL))
/*@ clause post.third_point_undefined src=header props=C12 */
__CPROVER_ensures(isnan(self->_a13) && isnan(self->_s13))
/*@ clause post.point src=header props=C12,C01 */
__CPROVER_ensures(VERIF_SAME_D(self->_lon1, lon1) && VERIF_SAME_D(self->_azi1, azi1) && VERIF_SAME_D(self->_salp1, salp1) && VERIF_SAME_D(self->_calp1, calp1) &&
                  (fabs(lat1) <= 90.0 ? self->_lat1 == lat1 : isnan(self->_lat1)))
