/* Contract of  Math::real DMS::InternalDecode(const std::string& dmsa, flag& ind)   (src/DMS.cpp)
 * Source: C10 "reject every malformed string with the library's exception without crashing", DMS.hpp (components d ' " and
 * ':' separators, hemisphere letters, minutes and seconds below 60); C13 memory safety for every string.
 * Number parsing (istringstream) is not modelled: fractional values are arbitrary non-negative numbers. */
/*@ capture-before (*ind) = ind1; :: cap_main=1:int cap_ip1=ipieces[1]:double cap_ip2=ipieces[2]:double cap_fp1=fpieces[1]:double cap_fp2=fpieces[2]:double */
/*@ ghost-init */
cap_main = 0;
/*@ ghost */
#define ID_LEN (dmsa->len)
#define ID_C(i) (dmsa->p[i])
#define ID_ISDIG(c) ((c) >= '0' && (c) <= '9')
#define ID_ISIND(c) (VERIF_UP(c) == 'D' || (c) == '\'' || (c) == '"' || (c) == ':')
#define ID_RANK(c) (VERIF_UP(c) == 'D' ? 0 : (c) == '\'' ? 1 : (c) == '"' ? 2 : -1)
#define ID_ISHEMI(c) (VERIF_UP(c) == 'N' || VERIF_UP(c) == 'S' || VERIF_UP(c) == 'E' || VERIF_UP(c) == 'W')
#define ID_ISSIGN(c) ((c) == '-' || (c) == '+')
#define ID_G1 ((int)verif_ghost_idx)
#define ID_G2 ((int)verif_ghost_idx2)
#define ID_G3 ((int)verif_ghost_idx3)
#define ID_IN(i) (0 <= (i) && (i) < ID_LEN)
/* accepted as a degrees/minutes/seconds string (the alternative is the list of special number names of Utility::nummatch) */
#define ID_ACCEPTED (!verif_thrown && cap_main)
/*@ clause pre.string src=call-site */
__CPROVER_requires(verif_thrown == 0 && dmsa->len >= 0 && dmsa->len < VERIF_STRCAP && __CPROVER_r_ok(dmsa->p, VERIF_STRCAP) && dmsa->p[dmsa->len] == 0)
/*@ clause frame src=property props=C13,C14 */
__CPROVER_assigns(*ind, verif_thrown, cap_main, cap_ip1, cap_ip2, cap_fp1, cap_fp2)
/*@ clause post.no_other_exception src=property props=C13,C10 */
__CPROVER_ensures(!verif_thrown_other)
/*@ clause post.ind_values src=header props=C10 */
__CPROVER_ensures(verif_thrown || (*ind == 0 || *ind == 1 || *ind == 2))
/*@ clause post.throw_unchanged src=property props=C13 */
__CPROVER_ensures(!verif_thrown || *ind == __CPROVER_old(*ind))
/*@ clause post.hemisphere_flag src=header props=C10 */
/* a leading or trailing hemisphere letter determines the flag: N,S -> LATITUDE (1), E,W -> LONGITUDE (2) -- unless the
   string is one of the special number names handled by nummatch (then NONE) */
__CPROVER_ensures(verif_thrown || *ind == 0 || ID_LEN == 0 ||
   (*ind == 1 ? (VERIF_UP(dmsa->p[0]) == 'N' || VERIF_UP(dmsa->p[0]) == 'S' || VERIF_UP(dmsa->p[ID_LEN - 1]) == 'N' || VERIF_UP(dmsa->p[ID_LEN - 1]) == 'S')
              : (VERIF_UP(dmsa->p[0]) == 'E' || VERIF_UP(dmsa->p[0]) == 'W' || VERIF_UP(dmsa->p[ID_LEN - 1]) == 'E' || VERIF_UP(dmsa->p[ID_LEN - 1]) == 'W')))
/*@ clause post.empty_rejected src=property props=C10 */
__CPROVER_ensures(ID_LEN != 0 || verif_thrown || *ind == 0)
/*@ clause post.minutes_seconds_range src=header props=C10 */
/* DMS.hpp: "4:60" and "4:59:60" are illegal: when the string is accepted as degrees/minutes/seconds (cap_main: the point where the
   result flag is stored), the integer parts of minutes and seconds are below 60 and their values do not exceed 60 */
__CPROVER_ensures(verif_thrown || !cap_main || (cap_ip1 < 60.0 && cap_ip2 < 60.0 && cap_fp1 <= 60.0 && cap_fp2 <= 60.0))
/*@ clause post.grammar_alphabet src=header props=C10 */
/* DMS.hpp grammar, stated on the STRING for every position (ghost indices G1 < G2 < G3 are arbitrary): a string accepted as DMS consists
   of digits, one '.', the component indicators d ' " :, a sign and hemisphere letters only; hemisphere letters only first or last;
   a sign only first or directly after a leading hemisphere letter ("-N20.5", "1.8e2d" and internal signs are ILLEGAL here) */
__CPROVER_ensures(!ID_ACCEPTED || !ID_IN(ID_G1) ||
   ((ID_ISDIG(ID_C(ID_G1)) || ID_C(ID_G1) == '.' || ID_ISIND(ID_C(ID_G1)) || ID_ISSIGN(ID_C(ID_G1)) || ID_ISHEMI(ID_C(ID_G1))) &&
    (!ID_ISHEMI(ID_C(ID_G1)) || ID_G1 == 0 || ID_G1 == ID_LEN - 1) &&
    (!ID_ISSIGN(ID_C(ID_G1)) || ID_G1 == 0 || (ID_G1 == 1 && ID_ISHEMI(ID_C(0))))))
/*@ clause post.grammar_one_point src=header props=C10 */
/* "The final component may be a decimal fraction but the non-final components must be integers": at most one decimal point, and no
   component indicator followed by more digits after it ("4d4.5'4\"" is ILLEGAL) */
__CPROVER_ensures(!ID_ACCEPTED || !(ID_IN(ID_G1) && ID_IN(ID_G2) && ID_G1 < ID_G2 && ID_C(ID_G1) == '.') || ID_C(ID_G2) != '.')
/*@ clause post.grammar_fraction_last src=header props=C10 */
__CPROVER_ensures(!ID_ACCEPTED || !(ID_IN(ID_G1) && ID_IN(ID_G2) && ID_IN(ID_G3) && ID_G1 < ID_G2 && ID_G2 < ID_G3 && ID_C(ID_G1) == '.' && ID_ISIND(ID_C(ID_G2))) ||
                  !ID_ISDIG(ID_C(ID_G3)))
/*@ clause post.grammar_order src=header props=C10 */
/* "these components may only be given in this order" (d before ' before "), none repeated ("4d5\"4'" is ILLEGAL) */
__CPROVER_ensures(!ID_ACCEPTED || !(ID_IN(ID_G1) && ID_IN(ID_G2) && ID_G1 < ID_G2 && ID_RANK(ID_C(ID_G1)) >= 0 && ID_RANK(ID_C(ID_G2)) >= 0) ||
                  ID_RANK(ID_C(ID_G1)) < ID_RANK(ID_C(ID_G2)))
/*@ clause post.grammar_colons src=header props=C10 */
/* "numbers must appear before and after each colon" ("4::5", "4:5:", ":4:5" are ILLEGAL); at most two colons (three components) */
__CPROVER_ensures(!ID_ACCEPTED || !(ID_IN(ID_G1) && ID_C(ID_G1) == ':') ||
                  (ID_G1 > 0 && ID_G1 < ID_LEN - 1 && (ID_ISDIG(ID_C(ID_G1 - 1)) || ID_C(ID_G1 - 1) == '.') && (ID_ISDIG(ID_C(ID_G1 + 1)) || ID_C(ID_G1 + 1) == '.')))
/*@ clause post.grammar_three_components src=header props=C10 */
__CPROVER_ensures(!ID_ACCEPTED || !(ID_IN(ID_G1) && ID_IN(ID_G2) && ID_IN(ID_G3) && ID_G1 < ID_G2 && ID_G2 < ID_G3 && ID_C(ID_G1) == ':' && ID_C(ID_G2) == ':') ||
                  ID_C(ID_G3) != ':')
/*@ clause post.sign src=header props=C10 */
/* "A single leading sign is permitted ... The result is multiplied by the implied sign of the hemisphere designator (negative for S and W)" */
__CPROVER_ensures(!ID_ACCEPTED || ID_LEN < 1 ||
   signbit(__CPROVER_return_value) ==
     (((VERIF_UP(ID_C(0)) == 'S' || VERIF_UP(ID_C(0)) == 'W' || VERIF_UP(ID_C(ID_LEN - 1)) == 'S' || VERIF_UP(ID_C(ID_LEN - 1)) == 'W') ? 1 : 0) !=
      ((ID_C(0) == '-' || (ID_ISHEMI(ID_C(0)) && ID_LEN > 1 && ID_C(1) == '-')) ? 1 : 0)))
