/* Contract of  Math::real DMS::InternalDecode(const std::string& dmsa, flag& ind)   (src/DMS.cpp)
 * Source: C10 "reject every malformed string with the library's exception without crashing", DMS.hpp (components d ' " and
 * ':' separators, hemisphere letters, minutes and seconds below 60); C13 memory safety for every string.
 * Number parsing (istringstream) is not modelled: fractional values are arbitrary non-negative numbers. */
/*@ capture-before (*ind) = ind1; :: cap_main=1:int cap_ip1=ipieces[1]:double cap_ip2=ipieces[2]:double cap_fp1=fpieces[1]:double cap_fp2=fpieces[2]:double */
/*@ ghost-init */
cap_main = 0;
/*@ ghost */
#define ID_LEN (dmsa->len)
/*@ clause pre.string src=call-site */
__CPROVER_requires(verif_thrown == 0 && dmsa->len >= 0 && dmsa->len < VERIF_STRCAP && __CPROVER_r_ok(dmsa->p, VERIF_STRCAP) && dmsa->p[dmsa->len] == 0)
/*@ clause frame src=property props=C13,C14 */
__CPROVER_assigns(*ind, verif_thrown, cap_main, cap_ip1, cap_ip2, cap_fp1, cap_fp2)
/*@ clause post.no_other_exception src=property props=C13,C10 */
__CPROVER_ensures(!verif_thrown_other)
/*@ clause post.ind_values src=header props=C10 */
__CPROVER_ensures(verif_thrown || (*ind == 0 || *ind == 1 || *ind == 2))
/*@ clause post.throw_unchanged src=property props=C13 */
__CPROVER_ensures(!verif_thrown || *ind == __CPROVER_old(*ind))
/*@ clause post.hemisphere_flag src=header props=C10 */
/* a leading or trailing hemisphere letter determines the flag: N,S -> LATITUDE (1), E,W -> LONGITUDE (2) -- unless the
   string is one of the special number names handled by nummatch (then NONE) */
__CPROVER_ensures(verif_thrown || *ind == 0 || ID_LEN == 0 ||
   (*ind == 1 ? (VERIF_UP(dmsa->p[0]) == 'N' || VERIF_UP(dmsa->p[0]) == 'S' || VERIF_UP(dmsa->p[ID_LEN - 1]) == 'N' || VERIF_UP(dmsa->p[ID_LEN - 1]) == 'S')
              : (VERIF_UP(dmsa->p[0]) == 'E' || VERIF_UP(dmsa->p[0]) == 'W' || VERIF_UP(dmsa->p[ID_LEN - 1]) == 'E' || VERIF_UP(dmsa->p[ID_LEN - 1]) == 'W')))
/*@ clause post.empty_rejected src=property props=C10 */
__CPROVER_ensures(ID_LEN != 0 || verif_thrown || *ind == 0)
/*@ clause post.minutes_seconds_range src=header props=C10 */
/* DMS.hpp: "4:60" and "4:59:60" are illegal: when the string is accepted as degrees/minutes/seconds (cap_main: the point where the
   result flag is stored), the integer parts of minutes and seconds are below 60 and their values do not exceed 60 */
__CPROVER_ensures(verif_thrown || !cap_main || (cap_ip1 < 60.0 && cap_ip2 < 60.0 && cap_fp1 <= 60.0 && cap_fp2 <= 60.0))
