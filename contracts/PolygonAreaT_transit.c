/* Contract of  static int PolygonAreaT<GeodType>::transit(real lon1, real lon2)   (src/PolygonArea.cpp)
 * Source: C08 "each edge being the shortest line between consecutive vertices": the count of prime-meridian crossings of the
 * shorter way round from lon1 to lon2: +1 eastward across 0, -1 westward, longitude +/-0 counted as positive.
 * AngDiff, AngNormalize and Math::sum are inlined (their extracted bodies), remainder is the exact model.
 * The semantic clause is stated for longitudes in (-180, 180) whose difference is clearly below 180 (the property takes the
 * shortest line to be unique). */
/*@ clause frame src=property props=C14 only=enforce */
__CPROVER_assigns(vm_last_k)
/*@ clause frame.caller src=property only=replace */
/* the model's ghost is not part of what a caller sees */
__CPROVER_assigns()
/*@ clause post.range src=property props=C08 */
__CPROVER_ensures(-1 <= __CPROVER_return_value && __CPROVER_return_value <= 1)
/*@ clause post.nan src=property props=C13 */
__CPROVER_ensures(!(isnan(lon1) || isnan(lon2) || isinf(lon1) || isinf(lon2)) || __CPROVER_return_value == 0)
/*@ clause post.crossing src=property props=C08 */
__CPROVER_ensures(!(-180.0 < lon1 && lon1 < 180.0 && -180.0 < lon2 && lon2 < 180.0 && fabs(lon2 - lon1) <= 179.0) ||
                  __CPROVER_return_value == ((lon1 < 0 && lon2 >= 0) ? 1 : (lon1 >= 0 && lon2 < 0) ? -1 : 0))
/*@ clause post.same_point src=property props=C08 */
__CPROVER_ensures(!(lon1 == lon2 && !isinf(lon1)) || __CPROVER_return_value == 0)
/*@ clause post.same_meridian src=property props=C08 */
/* "unchanged when any longitude is changed by a multiple of 360 degrees": an edge whose two ends are the SAME meridian written one turn
 * apart (e.g. +180 and -180, 190 and -170) goes nowhere in longitude and crosses nothing.  The domain is where lon -+ 360 is exact in
 * binary floating point (|result| <= |operand|), so the two arguments denote exactly the same meridian. */
__CPROVER_ensures(!((180.0 <= lon1 && lon1 <= 540.0 && lon2 == lon1 - 360.0) || (-540.0 <= lon1 && lon1 <= -180.0 && lon2 == lon1 + 360.0) ||
                    (180.0 <= lon2 && lon2 <= 540.0 && lon1 == lon2 - 360.0) || (-540.0 <= lon2 && lon2 <= -180.0 && lon1 == lon2 + 360.0)) ||
                  __CPROVER_return_value == 0)
/*@ clause post.antimeridian src=property props=C08 */
/* the shorter way round between two longitudes more than 181 degrees apart goes across the antimeridian and never over longitude 0 */
__CPROVER_ensures(!(-180.0 < lon1 && lon1 < 180.0 && -180.0 < lon2 && lon2 < 180.0 && fabs(lon2 - lon1) >= 181.0) || __CPROVER_return_value == 0)
/*@ ghost */
int __CPROVER_uninterpreted_transit(double, double);
/*@ clause post.deterministic src=purity only=replace */
/* for callers: the count is a function of the two longitudes only (the function is static and reads nothing else) */
__CPROVER_ensures(__CPROVER_return_value == __CPROVER_uninterpreted_transit(lon1, lon2))
