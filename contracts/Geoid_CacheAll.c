/* Contract of  void Geoid::CacheAll() const   (Geoid.hpp, inline): "Cache all the data": the area asked of CacheArea is the whole sphere --
 * south pole to north pole, a full turn of longitude starting at 0.  Source: C20 (full cache); CacheArea by contract (Geoid_CacheArea.c). */
/*@ uses Geoid_CacheArea */
/*@ clause pre.invariant src=constructor */
__CPROVER_requires(CA_INV && verif_thrown == 0)
/*@ clause frame src=property props=C14,C20 */
__CPROVER_assigns(verif_thrown, self->_cache, self->_xoffset, self->_yoffset, self->_xsize, self->_ysize, g_geoid_file_ix, g_geoid_file_iy, g_fill_row, g_fill_next,
                  g_CA_calls, g_CA_south, g_CA_west, g_CA_north, g_CA_east)
/*@ clause post.whole_sphere src=header props=C20 */
__CPROVER_ensures(g_CA_calls == 1 && g_CA_south == -90.0 && g_CA_north == 90.0 && g_CA_west == 0.0 && g_CA_east == 360.0)
