/* ASSUMED contract of  void Geoid::CacheClear() const  (src/Geoid.cpp: releases the area cache; std::vector code).  Frame: the cache flag. */
/*@ clause frame src=assumed */
__CPROVER_requires(1)
__CPROVER_assigns(self->_cache)
__CPROVER_ensures(self->_threadsafe || !self->_cache)
