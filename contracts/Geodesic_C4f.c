/* Contract of  void Geodesic::C4f(real eps, real c[]) const   (src/Geodesic.cpp): fills c[0..nC4_-1] from the member table _cC4x;
 * the loop consumes the table exactly (the source's own "Post condition: o == nC4x_"). -- C01, C13, C14 */
/*@ capture-end cap_o=o:int */
/*@ clause pre.array src=call-site */
__CPROVER_requires(__CPROVER_rw_ok(c, nC4_ * sizeof(double)))
/*@ clause frame src=property props=C14,C13 only=enforce */
__CPROVER_assigns(__CPROVER_object_upto(c, nC4_ * sizeof(double)), cap_o)
/*@ clause frame.caller src=property only=replace */
__CPROVER_assigns(__CPROVER_object_upto(c, nC4_ * sizeof(double)))
/*@ clause post.table_consumed src=code-comment props=C01,C13 only=enforce */
__CPROVER_ensures(cap_o == nC4x_)
