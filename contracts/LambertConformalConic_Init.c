/* ASSUMED contract of  void LambertConformalConic::Init(real sphi1, real cphi1, real sphi2, real cphi2, real k1)  (numeric set-up of the projection
 * constants: C11 is not applicable; the body contains no throw).  Frame only: it writes its own object. */
/*@ clause frame src=assumed */
__CPROVER_requires(1)
__CPROVER_assigns(*self)
__CPROVER_ensures(1)
