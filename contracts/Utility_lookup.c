/* Contract of  int Utility::lookup(const char* s, char c)   (src/Utility.cpp)
 * Source of the postconditions: C18 "consisting only of characters of the scheme's alphabet",
 * "decoding is case-insensitive"; C05/C10 "malformed strings are rejected": the result is an index
 * of a real alphabet character (strictly below the terminator) or -1. */
/*@ ghost */
#ifndef VERIF_LOOKUP_CAP
#define VERIF_LOOKUP_CAP 40
#endif
/*@ clause pre.cstring src=call-site */
__CPROVER_requires(__CPROVER_r_ok(s, 1) && verif_strlen(s) < VERIF_LOOKUP_CAP)
/*@ clause frame src=property props=C14 */
__CPROVER_assigns()
/*@ clause post.range src=property props=C18,C05,C10,C13 only=enforce */
__CPROVER_ensures(__CPROVER_return_value == -1 ||
                  (0 <= __CPROVER_return_value && __CPROVER_return_value < verif_strlen(s)))
/*@ clause post.match src=property props=C18,C05,C10 only=enforce */
__CPROVER_ensures(__CPROVER_return_value == -1 || s[__CPROVER_return_value] == (char)verif_toupper(c))
/*@ clause post.first src=property props=C18 only=enforce */
__CPROVER_ensures(!(verif_ghost_idx < (size_t)verif_strlen(s)) ||
                  (__CPROVER_return_value != -1 && verif_ghost_idx >= (size_t)__CPROVER_return_value) ||
                  s[verif_ghost_idx] != (char)verif_toupper(c))
/* the three clauses above quantify through the ghost index, which is strong when proved but gives a caller only one
   instance; callers get the complete functional specification: */
/*@ clause post.functional src=property props=C18,C05,C10 */
__CPROVER_ensures(__CPROVER_return_value == verif_index_of(s, (char)verif_toupper(c)))
/*@ harness */
void h_Utility_lookup(void) {
  verif_ghost_idx = nondet_size_t();
  char in_s[VERIF_LOOKUP_CAP];
  for (int i = 0; i < VERIF_LOOKUP_CAP; ++i) in_s[i] = nondet_char();
  in_s[VERIF_LOOKUP_CAP - 1] = 0;
  char in_c = nondet_char();
  int ret_ = Utility_lookup(in_s, in_c);
  __CPROVER_assert(0, "canary: end of harness reachable");
}
