/* Contract of the inline overload  template<typename T> static T Math::AngDiff(T x, T y)  (Math.hpp): callers need only
 * the range and the NaN behaviour.  (This file was the assumed contract Math_AngDiff.c of earlier commits.) */
/*@ clause frame src=property props=C14 only=enforce */
__CPROVER_assigns(vm_last_k)
/*@ clause frame.caller src=property only=replace */
/* the ghost variables of the model / captures are not part of what a caller sees */
__CPROVER_assigns()
/*@ clause post.range src=property props=C16 */
__CPROVER_ensures(isnan(__CPROVER_return_value) || (-180.0 <= __CPROVER_return_value && __CPROVER_return_value <= 180.0))
/*@ clause post.nan src=property props=C16 */
__CPROVER_ensures(isnan(__CPROVER_return_value) == (isnan(x) || isnan(y) || isinf(x) || isinf(y)))
