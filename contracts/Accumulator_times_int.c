/* Contract of  Accumulator& Accumulator<T>::operator*=(int n)   (Accumulator.hpp, T = double; PolygonAreaT::AreaReduce negates the
 * accumulated area with `area *= -1`).  Source: C16, C08.  frame = the two words; n = -1 negates BOTH words exactly (so the sum changes
 * sign and nothing else), n = 1 is the identity, NaN rule. */
/*@ clause frame src=property props=C14 */
__CPROVER_assigns(self->_s, self->_t)
/*@ clause post.returns_self src=property */
__CPROVER_ensures(__CPROVER_return_value == self)
/*@ clause post.nan src=property props=C16,C13 */
__CPROVER_ensures(!isnan(__CPROVER_old(self->_s)) || isnan(self->_s))
/*@ clause post.negate src=property props=C16,C08 */
__CPROVER_ensures(!(n == -1 && !isnan(__CPROVER_old(self->_s)) && !isnan(__CPROVER_old(self->_t))) ||
                  (self->_s == -__CPROVER_old(self->_s) && self->_t == -__CPROVER_old(self->_t) &&
                   signbit(self->_s) != signbit(__CPROVER_old(self->_s)) && signbit(self->_t) != signbit(__CPROVER_old(self->_t))))
/*@ clause post.identity src=property props=C16 */
__CPROVER_ensures(!(n == 1) || (VERIF_SAME_D(self->_s, __CPROVER_old(self->_s)) && VERIF_SAME_D(self->_t, __CPROVER_old(self->_t))))
