/* Contract of  Math::real Geodesic::A3f(real eps) const   (src/Geodesic.cpp): polynomial over the member table _aA3x, reads inside the
 * table (safety obligations of the body), writes nothing. -- C13, C14 */
/*@ clause frame src=property props=C14,C13 */
__CPROVER_requires(1)
__CPROVER_assigns()
__CPROVER_ensures(1)
