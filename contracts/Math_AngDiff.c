/* Contract of  template<typename T> T Math::AngDiff(T x, T y, T& e)   (src/Math.cpp)
 * Source: C16 "the angle difference and its error term sum exactly to the true difference reduced modulo 360" -- of this,
 * the range, the NaN behaviour and the sign conventions at 0 and +/-180 are decided here; the exactness of d + e is not
 * (it needs the exact sum of two doubles: thorough tier / bounded, see DESIGN). */
/*@ clause frame src=property props=C14 only=enforce */
__CPROVER_assigns(*e, vm_last_k)
/*@ clause frame.caller src=property only=replace */
/* the ghost variables of the model / captures are not part of what a caller sees */
__CPROVER_assigns(*e)
/*@ clause post.nan src=property props=C13,C16 */
__CPROVER_ensures(isnan(__CPROVER_return_value) == (isnan(x) || isnan(y) || isinf(x) || isinf(y)))
/*@ clause post.range src=property props=C16 */
__CPROVER_ensures(isnan(__CPROVER_return_value) || (-180.0 <= __CPROVER_return_value && __CPROVER_return_value <= 180.0))
/*@ clause post.error_small src=property props=C16 */
__CPROVER_ensures(isnan(__CPROVER_return_value) || (!isnan(*e) && fabs(*e) <= 1e-13))
