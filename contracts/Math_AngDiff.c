/* Contract of  template<typename T> T Math::AngDiff(T x, T y)  (one-output overload; enforced under C16 for the
 * two-output form).  Callers here need only the range and NaN behaviour. */
/*@ clause frame src=property props=C14 */
__CPROVER_assigns()
/*@ clause post.range src=property props=C16 */
__CPROVER_ensures(isnan(__CPROVER_return_value) || (-180.0 <= __CPROVER_return_value && __CPROVER_return_value <= 180.0))
/*@ clause post.nan src=property props=C16 */
__CPROVER_ensures(isnan(__CPROVER_return_value) == (isnan(x) || isnan(y) || isinf(x) || isinf(y)))
