/* Contract of  static int MGRS::LatitudeBand(real lat)   (include/GeographicLib/MGRS.hpp, inline)
 * Oracle: MGRS latitude bands C..X: 8 degrees each from 80S, southern edge included, band X extended to 84N
 * (and beyond, clamped); numbered -10..9.  -- C05, C04 */
/*@ clause frame src=property props=C14 */
__CPROVER_assigns()
/*@ clause post.range src=standard props=C05 */
__CPROVER_ensures(-10 <= __CPROVER_return_value && __CPROVER_return_value <= 9)
/*@ clause post.band src=standard props=C05,C04 */
__CPROVER_ensures(isnan(lat) || (__CPROVER_return_value == -10 || 8.0 * __CPROVER_return_value <= lat) &&
                  (__CPROVER_return_value == 9 || lat < 8.0 * (__CPROVER_return_value + 1)))
/*@ clause post.clamp src=standard props=C05 */
__CPROVER_ensures(isnan(lat) || ((lat >= -80.0 || __CPROVER_return_value == -10) && (lat < 72.0 || __CPROVER_return_value == 9)))
