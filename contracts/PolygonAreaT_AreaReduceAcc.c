/* ASSUMED contract of the instantiation  void PolygonAreaT<Geodesic>::AreaReduce<Accumulator<>>(Accumulator<>& area, int crossings,
 * bool reverse, bool sign) const  used by Compute (the same template text as the `real` instantiation that is verified in
 * PolygonAreaT_AreaReduce.c, but over Accumulator's operators -=, *=, >, <=: not extracted).  Frame: the accumulator passed in.
 * Ghost record: what was reduced, with which crossing count and conventions, and what came out. */
/*@ uses PolygonAreaT_AreaReduce */
/*@ prototype */
void PolygonAreaT_AreaReduceAcc(struct PolygonAreaT *self, struct Accumulator *area, int crossings, _Bool reverse, _Bool sign)
/*@ clause frame src=assumed */
__CPROVER_requires(1)
__CPROVER_assigns(area->_s, area->_t, g_AR_calls, g_AR_crossings, g_AR_reverse, g_AR_sign, g_AR_in, g_AR_out)
/*@ clause post.ghost src=ghost */
__CPROVER_ensures(g_AR_calls == __CPROVER_old(g_AR_calls) + 1 && g_AR_crossings == crossings && g_AR_reverse == reverse && g_AR_sign == sign &&
                  VERIF_SAME_D(g_AR_in, __CPROVER_old(area->_s)) && VERIF_SAME_D(g_AR_out, area->_s))
