/* Contract of  void OSGB::GridReference(const std::string& gridref, real& x, real& y, int& prec, bool centerp)  -- the decoder, for strings
 * WITHOUT white space and fully unwound (B: strings <= 28 bytes; the companion job OSGB.GridReference_rev closes the white-space-skipping loop by
 * a loop contract for any length but cannot count).  Source: C18 "Decoding any such code returns ... the precision, re-encoding the decoded
 * point reproduces the code; strings that are not valid codes are rejected": the decoder accepts EXACTLY two grid letters followed by an even
 * number (0 .. 22) of digits, and the precision is half the number of digits -- in particular every code the encoder can emit (up to precision
 * 11 = 24 characters) is accepted. */
/*@ ghost */
#define OGN_INV (gridref->len >= 2 && VERIF_UP(gridref->p[0]) == 'I' && VERIF_UP(gridref->p[1]) == 'N')
/*@ clause pre.string src=call-site */
__CPROVER_requires(gridref->len >= 0 && gridref->len < VERIF_STRCAP && __CPROVER_r_ok(gridref->p, VERIF_STRCAP) && gridref->p[gridref->len] == 0 && verif_thrown == 0)
/*@ clause frame src=property props=C13,C14 */
__CPROVER_assigns(*x, *y, *prec, verif_thrown)
/*@ clause post.no_other_exception src=property props=C13 */
__CPROVER_ensures(!verif_thrown_other)
/*@ harness-pre */
  {
    /* this job: no white space anywhere in the string */
    for (int i_ = 0; i_ < VERIF_STRCAP; ++i_) __CPROVER_assume(i_ >= in_gridref.len || !(in_gridref_buf[i_] == ' ' || (in_gridref_buf[i_] >= '\t' && in_gridref_buf[i_] <= '\r')));
  }
/*@ harness-post */
  {
    const char *b_ = in_gridref_buf; int n_ = in_gridref.len;
    int inv_ = n_ >= 2 && VERIF_UP(b_[0]) == 'I' && VERIF_UP(b_[1]) == 'N';
    int letters_ok_ = n_ >= 2 && VERIF_UP(b_[0]) >= 'A' && VERIF_UP(b_[0]) <= 'Z' && VERIF_UP(b_[0]) != 'I' && VERIF_UP(b_[1]) >= 'A' && VERIF_UP(b_[1]) <= 'Z' && VERIF_UP(b_[1]) != 'I';
    int digits_ok_ = 1;
    for (int i_ = 2; i_ < VERIF_STRCAP; ++i_) if (i_ < n_ && !(b_[i_] >= '0' && b_[i_] <= '9')) digits_ok_ = 0;
    int wellformed_ = letters_ok_ && digits_ok_ && n_ % 2 == 0 && n_ <= 24;
    if (!inv_) {
      __CPROVER_assert(!wellformed_ || !verif_thrown, "post.accepts_every_code");
      __CPROVER_assert(verif_thrown || wellformed_, "post.rejects_malformed");
      __CPROVER_assert(verif_thrown || in_prec == (n_ - 2) / 2, "post.precision");
    }
  }
