/* Contract of the constructor  GeodesicLine::GeodesicLine(const Geodesic& g, real lat1, real lon1, real azi1, unsigned caps)
 * (src/GeodesicLine.cpp).  Source: C12 / C01 (GeodesicLine.hpp: "azi1 ... The object remembers the normalised azimuth"; latitude,
 * azimuth and unrolling always granted; third point undefined).  LineInit, AngNormalize, sincosd are called by contract. */
/*@ clause frame src=property */
__CPROVER_assigns(*self)
/*@ clause post.caps src=header props=C12,C01 */
__CPROVER_ensures(self->_caps == (caps | LATITUDE | AZIMUTH | LONG_UNROLL))
/*@ clause post.third_point_undefined src=header props=C12 */
__CPROVER_ensures(isnan(self->_a13) && isnan(self->_s13))
/*@ clause post.point src=header props=C12,C01 */
__CPROVER_ensures(VERIF_SAME_D(self->_lon1, lon1) && (fabs(lat1) <= 90.0 ? self->_lat1 == lat1 : isnan(self->_lat1)))
/*@ clause post.azimuth_normalised src=header props=C12,C01 */
__CPROVER_ensures((isnan(self->_azi1) == (isnan(azi1) || isinf(azi1))) && (isnan(self->_azi1) || fabs(self->_azi1) <= 180.0) &&
                  (!(fabs(azi1) <= 180.0) || (self->_azi1 == azi1 && signbit(self->_azi1) == signbit(azi1))))
/*@ clause post.invariant src=code props=C12 */
__CPROVER_ensures(VERIF_SAME_D(self->_f1, g->_f1) && VERIF_SAME_D(self->tiny_, g->tiny_) && self->_exact == g->_exact)
