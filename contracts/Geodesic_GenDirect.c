/* Contract of  Math::real Geodesic::GenDirect(real lat1, real lon1, real azi1, bool arcmode, real s12_a12, unsigned outmask,
 *      real& lat2, real& lon2, real& azi2, real& s12, real& m12, real& M12, real& M21, real& S12) const      (src/Geodesic.cpp)
 * Source: C12 "quantities that were not requested ... are left untouched" and Geodesic.hpp ("Geodesic_DISTANCE_IN is supplied automatically");
 * C01 ranges of the returned latitude / longitude / azimuth; C14 (const: the solver object is not written).
 * The temporary line is built by the (verified) line constructor and interrogated by the (verified) GenPosition, both by contract.
 * REWRITE (rule R16, stated in the evidence): `return GeodesicLine(*this, ...).GenPosition(...)` becomes a named local line object,
 * a constructor call and a GenPosition call -- same calls, same arguments, same order. */
/*@ ghost */
/* for callers (PolygonArea::AddEdge / TestEdge): what was asked and what came back */
unsigned g_GD_calls, g_GD_mask; _Bool g_GD_arcmode; double g_GD_lat1, g_GD_lon1, g_GD_azi1, g_GD_s12_a12, g_GD_lat2, g_GD_lon2, g_GD_S12;
/*@ ghost-init */
g_GD_calls = 0;
/*@ ghost */
#define GD_ON(bit) ((outmask & 0xFF80U & (bit)) != 0U)
/*@ clause pre.solver src=class-invariant */
/* established by Geodesic's constructor (Geodesic_Geodesic.c: post.invariant) */
__CPROVER_requires(self->_exact || (self->_f1 > 0.0 && !isinf(self->_f1) && self->tiny_ > 0.0))
/*@ clause frame src=property props=C12,C14 */
__CPROVER_assigns(GD_ON(Geodesic_LATITUDE): *lat2; GD_ON(Geodesic_LONGITUDE): *lon2; GD_ON(Geodesic_AZIMUTH): *azi2; GD_ON(Geodesic_DISTANCE): *s12;
                  GD_ON(Geodesic_REDUCEDLENGTH): *m12; GD_ON(Geodesic_GEODESICSCALE): *M12; GD_ON(Geodesic_GEODESICSCALE): *M21; GD_ON(Geodesic_AREA): *S12)
/*@ clause frame.line_ghost src=ghost only=enforce */
/* the bookkeeping of the line contract used inside (not part of what a caller of GenDirect sees) */
__CPROVER_assigns(g_GP_calls, g_GP_outmask, g_GP_caps, g_GP_arcmode, g_GP_can, g_GP_s12_a12)
/*@ clause post.always_can src=header props=C12,C01 only=enforce */
/* a position by distance never fails for want of the Geodesic_DISTANCE_IN capability: it is supplied automatically */
__CPROVER_ensures(self->_exact || (g_GP_calls == 1 && g_GP_can))
/*@ clause post.same_request src=header props=C12,C01 only=enforce */
/* the line is asked exactly what the caller asked: same mode, same distance / arc, same output bits, and it has every capability asked for */
__CPROVER_ensures(self->_exact || (g_GP_arcmode == arcmode && VERIF_SAME_D(g_GP_s12_a12, s12_a12) &&
                  (g_GP_outmask & 0xFF80U & ~Geodesic_DISTANCE_IN) == (outmask & 0xFF80U & ~Geodesic_DISTANCE_IN) &&
                  (g_GP_caps & outmask) == outmask))
/*@ clause post.arc_returned src=header props=C12 */
__CPROVER_ensures(self->_exact || !arcmode || VERIF_SAME_D(__CPROVER_return_value, s12_a12))
/*@ clause post.distance_passthrough src=header props=C12 */
__CPROVER_ensures(self->_exact || !GD_ON(Geodesic_DISTANCE) || arcmode || VERIF_SAME_D(*s12, s12_a12))
/*@ clause post.azimuth_range src=property props=C01 */
__CPROVER_ensures(self->_exact || !GD_ON(Geodesic_AZIMUTH) || isnan(*azi2) || (-180.0 <= *azi2 && *azi2 <= 180.0))
/*@ clause post.latitude_range src=property props=C01 */
__CPROVER_ensures(self->_exact || !GD_ON(Geodesic_LATITUDE) || isnan(*lat2) || (-90.0 <= *lat2 && *lat2 <= 90.0))
/*@ clause post.longitude_range src=property props=C01 */
__CPROVER_ensures(self->_exact || !GD_ON(Geodesic_LONGITUDE) || (outmask & Geodesic_LONG_UNROLL) != 0U || isnan(*lon2) || (-180.0 <= *lon2 && *lon2 <= 180.0))
/*@ clause frame.ghost src=ghost only=replace */
__CPROVER_assigns(g_GD_calls, g_GD_mask, g_GD_arcmode, g_GD_lat1, g_GD_lon1, g_GD_azi1, g_GD_s12_a12, g_GD_lat2, g_GD_lon2, g_GD_S12)
/*@ clause post.ghost src=ghost only=replace */
__CPROVER_ensures(g_GD_calls == __CPROVER_old(g_GD_calls) + 1 && g_GD_mask == outmask && g_GD_arcmode == arcmode && VERIF_SAME_D(g_GD_lat1, lat1) &&
                  VERIF_SAME_D(g_GD_lon1, lon1) && VERIF_SAME_D(g_GD_azi1, azi1) && VERIF_SAME_D(g_GD_s12_a12, s12_a12) &&
                  VERIF_SAME_D(g_GD_lat2, *lat2) && VERIF_SAME_D(g_GD_lon2, *lon2) && VERIF_SAME_D(g_GD_S12, *S12))
