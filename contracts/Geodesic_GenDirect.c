/* Contract of  Math::real Geodesic::GenDirect(real lat1, real lon1, real azi1, bool arcmode, real s12_a12, unsigned outmask,
 *      real& lat2, real& lon2, real& azi2, real& s12, real& m12, real& M12, real& M21, real& S12) const      (src/Geodesic.cpp)
 * Source: C12 "quantities that were not requested ... are left untouched" and Geodesic.hpp ("DISTANCE_IN is supplied automatically");
 * C01 ranges of the returned latitude / longitude / azimuth; C14 (const: the solver object is not written).
 * The temporary line is built by the (verified) line constructor and interrogated by the (verified) GenPosition, both by contract.
 * REWRITE (rule R16, stated in the evidence): `return GeodesicLine(*this, ...).GenPosition(...)` becomes a named local line object,
 * a constructor call and a GenPosition call -- same calls, same arguments, same order. */
/*@ ghost */
#define GD_ON(bit) ((outmask & 0xFF80U & (bit)) != 0U)
/*@ clause pre.solver src=class-invariant */
/* established by Geodesic's constructor (Geodesic_Geodesic.c: post.invariant) */
__CPROVER_requires(self->_exact || (self->_f1 > 0.0 && !isinf(self->_f1) && self->tiny_ > 0.0))
/*@ clause frame src=property props=C12,C14 */
__CPROVER_assigns(GD_ON(LATITUDE): *lat2; GD_ON(LONGITUDE): *lon2; GD_ON(AZIMUTH): *azi2; GD_ON(DISTANCE): *s12;
                  GD_ON(REDUCEDLENGTH): *m12; GD_ON(GEODESICSCALE): *M12; GD_ON(GEODESICSCALE): *M21; GD_ON(AREA): *S12;
                  g_GP_calls, g_GP_outmask, g_GP_caps, g_GP_arcmode, g_GP_can, g_GP_s12_a12)
/*@ clause post.always_can src=header props=C12,C01 */
/* a position by distance never fails for want of the DISTANCE_IN capability: it is supplied automatically */
__CPROVER_ensures(self->_exact || (g_GP_calls == 1 && g_GP_can))
/*@ clause post.same_request src=header props=C12,C01 */
/* the line is asked exactly what the caller asked: same mode, same distance / arc, same output bits, and it has every capability asked for */
__CPROVER_ensures(self->_exact || (g_GP_arcmode == arcmode && VERIF_SAME_D(g_GP_s12_a12, s12_a12) &&
                  (g_GP_outmask & 0xFF80U & ~DISTANCE_IN) == (outmask & 0xFF80U & ~DISTANCE_IN) &&
                  (g_GP_caps & outmask) == outmask))
/*@ clause post.arc_returned src=header props=C12 */
__CPROVER_ensures(self->_exact || !arcmode || VERIF_SAME_D(__CPROVER_return_value, s12_a12))
/*@ clause post.distance_passthrough src=header props=C12 */
__CPROVER_ensures(self->_exact || !GD_ON(DISTANCE) || arcmode || VERIF_SAME_D(*s12, s12_a12))
/*@ clause post.azimuth_range src=property props=C01 */
__CPROVER_ensures(self->_exact || !GD_ON(AZIMUTH) || isnan(*azi2) || (-180.0 <= *azi2 && *azi2 <= 180.0))
/*@ clause post.latitude_range src=property props=C01 */
__CPROVER_ensures(self->_exact || !GD_ON(LATITUDE) || isnan(*lat2) || (-90.0 <= *lat2 && *lat2 <= 90.0))
/*@ clause post.longitude_range src=property props=C01 */
__CPROVER_ensures(self->_exact || !GD_ON(LONGITUDE) || (outmask & LONG_UNROLL) != 0U || isnan(*lon2) || (-180.0 <= *lon2 && *lon2 <= 180.0))
