/* Contract of  Accumulator& Accumulator<T>::operator=(T y)   (Accumulator.hpp, T = double; PolygonAreaT::Clear resets its sums with it).
 * Source: C16, C08: the accumulator holds exactly y afterwards (leading word y bit for bit, trailing word +0), whatever it held before. */
/*@ clause frame src=property props=C14 */
__CPROVER_assigns(self->_s, self->_t)
/*@ clause post.value src=property props=C16,C08 */
__CPROVER_ensures(VERIF_SAME_D(self->_s, y) && self->_t == 0.0 && !signbit(self->_t))
/*@ clause post.returns_self src=property */
__CPROVER_ensures(__CPROVER_return_value == self)
