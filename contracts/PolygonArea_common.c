/* Shared ghost section of the PolygonAreaT<Geodesic> contracts (included through `uses`): the class invariant established by the
 * constructor / Clear, and the hand-declared contract of the Accumulator instantiation of AreaReduce. */
/*@ ghost */
/* the mask fixed by the constructor (PolygonArea.hpp): position and distance always; area and unrolled longitude for polygons */
#define PA_MASK_OK (self->_mask == (Geodesic_LATITUDE | Geodesic_LONGITUDE | Geodesic_DISTANCE | (self->_polyline ? Geodesic_NONE : (Geodesic_AREA | Geodesic_LONG_UNROLL))))
#define PA_SOLVER_OK (self->_earth._exact || (self->_earth._f1 > 0.0 && !isinf(self->_earth._f1) && self->_earth.tiny_ > 0.0))
#define PA_SMALL (-1000000000 < self->_crossings && self->_crossings < 1000000000)
#define PA_GHOSTS_GI g_GI_calls, __CPROVER_object_whole(g_GI_lat1), __CPROVER_object_whole(g_GI_lon1), __CPROVER_object_whole(g_GI_lat2), \
                     __CPROVER_object_whole(g_GI_lon2), __CPROVER_object_whole(g_GI_s12), __CPROVER_object_whole(g_GI_S12), __CPROVER_object_whole(g_GI_mask)
#define PA_GHOSTS_ACC g_Acc_calls, __CPROVER_object_whole(g_Acc_obj), __CPROVER_object_whole(g_Acc_y)
#define PA_GHOSTS_GD g_GD_calls, g_GD_mask, g_GD_arcmode, g_GD_lat1, g_GD_lon1, g_GD_azi1, g_GD_s12_a12, g_GD_lat2, g_GD_lon2, g_GD_S12
#define PA_GHOSTS_AR g_AR_calls, g_AR_crossings, g_AR_reverse, g_AR_sign, g_AR_in, g_AR_out
#define PA_SAME_ACC(a, b) (VERIF_SAME_D((a)._s, (b)._s) && VERIF_SAME_D((a)._t, (b)._t))
/* Value clauses of TestPoint / TestEdge are stated on SMALL INTEGER values (0..3) of the terms: there every floating-point addition is
 * exact, so "the result is the sum of exactly these terms" is decidable at once, while the same equality over all doubles makes the solver
 * prove two adder circuits equivalent (measured: > 900 s).  A missing, doubled or misplaced term shows on small integers just as well. */
#define PA_SMALLINT(x) ((x) == 0.0 || (x) == 1.0 || (x) == 2.0 || (x) == 3.0)
