/* Contract of  template<typename T> T Math::tand(T x)   (src/Math.cpp): s / c of sincosd, clamped to +-1/eps^2 so that the poles are large
 * finite numbers of the right sign instead of infinities; NaN is preserved.  Source: C16 (degree-argument tangent).
 * sincosd is called by contract (verified in Math_sincosd.c). */
/*@ ghost */
#define TD_OVERFLOW 0x1p104      /* 1 / epsilon^2 for double */
/*@ clause frame src=property props=C14 */
__CPROVER_assigns()
/*@ clause post.nan src=property props=C13,C16 */
__CPROVER_ensures(isnan(__CPROVER_return_value) == (isnan(x) || isinf(x)))
/*@ clause post.clamped src=property props=C16 */
__CPROVER_ensures(isnan(__CPROVER_return_value) || fabs(__CPROVER_return_value) <= TD_OVERFLOW)
