/* Contract of  static void Geodesic::C1pf(real eps, real c[])   (src/Geodesic.cpp): fills c[1..nC1p_] from a coefficient table;
 * the loop consumes the table exactly (the source's own "Post condition: o == sizeof(coeff) / sizeof(real)"). -- C01, C13, C14 */
/*@ capture-end cap_o=o:int cap_size=(int)(sizeof(coeff)/sizeof(coeff[0])):int */
/*@ clause pre.array src=call-site */
__CPROVER_requires(__CPROVER_rw_ok(c, (nC1p_ + 1) * sizeof(double)))
/*@ clause frame src=property props=C14,C13 only=enforce */
__CPROVER_assigns(__CPROVER_object_upto(c, (nC1p_ + 1) * sizeof(double)), cap_o, cap_size)
/*@ clause frame.caller src=property only=replace */
__CPROVER_assigns(__CPROVER_object_upto(c, (nC1p_ + 1) * sizeof(double)))
/*@ clause post.table_consumed src=code-comment props=C01,C13 only=enforce */
__CPROVER_ensures(cap_o == cap_size)
