/* Contract of  template<typename T> T Math::AngRound(T x)   (src/Math.cpp)
 * Source: C16 "small-angle rounding behaves as specified" + Math.hpp: "round tiny values so that tiny values become zero ...
 * preserves the sign; the makes the smallest gap in x = 1/16 - nextafter(1/16, 0) = 1/2^57 for doubles". */
/*@ clause frame src=property props=C14 */
__CPROVER_assigns()
/*@ clause post.large_identity src=header props=C16 */
__CPROVER_ensures(!(fabs(x) >= 0.0625) || (__CPROVER_return_value == x))
/*@ clause post.sign src=header props=C16 */
__CPROVER_ensures(isnan(x) || signbit(__CPROVER_return_value) == signbit(x))
/*@ clause post.nan src=property props=C13 */
__CPROVER_ensures(isnan(__CPROVER_return_value) == isnan(x))
/*@ clause post.small src=header props=C16 */
__CPROVER_ensures(!(fabs(x) < 0.0625) || (fabs(__CPROVER_return_value) <= 0.0625 && fabs(__CPROVER_return_value - x) <= VERIF_ANGROUND_GAP))
/*@ clause post.grid src=header props=C16 */
/* results below 1/16 lie on the grid of spacing ulp(1/16)/2 (what makes them "rounded"): adding and subtracting 1/16 is exact */
__CPROVER_ensures(!(fabs(x) < 0.0625) || ((VERIF_ANGROUND_T)0.0625 - ((VERIF_ANGROUND_T)0.0625 - fabs(__CPROVER_return_value)) == fabs(__CPROVER_return_value)))
