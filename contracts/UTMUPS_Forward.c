/* Contract of  void UTMUPS::Forward(real lat, real lon, int& zone, bool& northp, real& x, real& y, real& gamma, real& k,
 *                                   int setzone, bool mgrslimits)   (src/UTMUPS.cpp)
 * Oracle: UTM/UPS standard: central meridian 6 zone - 183, false easting 500 km, false northing 0 (N) / 10000 km (S);
 * UPS false easting and northing 2000 km; hemisphere = sign bit of the latitude.  x_proj, y_proj are whatever the
 * projection (assumed contract) returned.  -- C04, C13 */
/*@ uses Math_AngNormalize TransverseMercator_Forward PolarStereographic_Forward */
/*@ ghost */
/* results of the last call, for callers that replace the call by this contract (UTMUPS::Transfer) */
int g_UF_zone; _Bool g_UF_northp; double g_UF_x, g_UF_y; int g_UF_setzone;
#define UF_OLD_SAME (*zone == __CPROVER_old(*zone) && *northp == __CPROVER_old(*northp) && VERIF_SAME_D(*x, __CPROVER_old(*x)) && \
   VERIF_SAME_D(*y, __CPROVER_old(*y)) && VERIF_SAME_D(*gamma, __CPROVER_old(*gamma)) && VERIF_SAME_D(*k, __CPROVER_old(*k)))
#define UF_OK (!verif_thrown && *zone != -4 && !isinf(lon) && !isnan(lat) && !isnan(lon))   /* nothing is claimed for lon = +-inf with an explicitly requested zone */
/*@ clause pre.not_thrown src=call-site */
__CPROVER_requires(verif_thrown == 0)
/*@ clause frame src=property props=C13,C14 */
__CPROVER_assigns(*zone, *northp, *x, *y, *gamma, *k, verif_thrown, g_AngNormalize_arg, g_AngNormalize_ret, g_AngNormalize_calls,
                  g_TM_x, g_TM_y, g_TM_gamma, g_TM_k, g_TM_lon0, g_TM_lat, g_TM_lon, g_TM_calls,
                  g_PS_x, g_PS_y, g_PS_gamma, g_PS_k, g_PS_calls, g_PS_northp)
/*@ clause post.no_other_exception src=property props=C13 */
__CPROVER_ensures(!verif_thrown_other)
/*@ clause post.throw_unchanged src=property props=C04,C13 */
__CPROVER_ensures(!verif_thrown || UF_OLD_SAME)
/*@ clause post.throws_bad_lat src=property props=C04,C13 */
__CPROVER_ensures(!(fabs(lat) > 90.0) || verif_thrown)
/*@ clause post.nan_invalid src=property props=C04,C13 */
__CPROVER_ensures(!((isnan(lat) || isnan(lon)) && !(fabs(lat) > 90.0) && setzone >= -3 && setzone < 0) ||
                  (!verif_thrown && *zone == -4 && isnan(*x) && isnan(*y) && isnan(*gamma) && isnan(*k)))
/*@ clause post.hemisphere src=standard props=C04 */
__CPROVER_ensures(verif_thrown || *northp == !signbit(lat))
/*@ clause post.utm_origin src=standard props=C04 */
__CPROVER_ensures(!UF_OK || *zone == 0 ||
                  (1 <= *zone && *zone <= 60 && g_TM_calls == 1 && g_PS_calls == 0 && g_TM_lon0 == 6.0 * *zone - 183.0 && g_TM_lat == lat && g_TM_lon == lon &&
                   *x == g_TM_x + 500000.0 && *y == g_TM_y + (*northp ? 0.0 : 10000000.0) &&
                   VERIF_SAME_D(*gamma, g_TM_gamma) && VERIF_SAME_D(*k, g_TM_k)))
/*@ clause post.ups_origin src=standard props=C04 */
__CPROVER_ensures(!UF_OK || *zone != 0 ||
                  (g_PS_calls == 1 && g_TM_calls == 0 && g_PS_northp == *northp && *x == g_PS_x + 2000000.0 && *y == g_PS_y + 2000000.0 &&
                   VERIF_SAME_D(*gamma, g_PS_gamma) && VERIF_SAME_D(*k, g_PS_k)))
/*@ clause post.closed src=property props=C04 */
/* what Forward returns lies in the documented range, hence Reverse accepts it (closure at the level of ranges) */
__CPROVER_ensures(!UF_OK ||
   ((*zone != 0 ? 100000.0 : *northp ? 1300000.0 : 800000.0) - (mgrslimits ? 0.0 : 100000.0) <= *x &&
    *x <= (*zone != 0 ? 900000.0 : *northp ? 2700000.0 : 3200000.0) + (mgrslimits ? 0.0 : 100000.0) &&
    (*zone != 0 ? (*northp ? -9000000.0 : 1000000.0) : *northp ? 1300000.0 : 800000.0) - (mgrslimits ? 0.0 : 100000.0) <= *y &&
    *y <= (*zone != 0 ? (*northp ? 9500000.0 : 19500000.0) : *northp ? 2700000.0 : 3200000.0) + (mgrslimits ? 0.0 : 100000.0)))
/*@ clause post.zone_choice src=standard props=C04 */
__CPROVER_ensures(!UF_OK || (setzone >= 0 ? *zone == setzone : ((*zone == 0) == !(setzone == -2 || (lat >= -80.0 && lat < 84.0)))))
/*@ clause frame.ghost_results src=ghost only=replace */
__CPROVER_assigns(g_UF_zone, g_UF_northp, g_UF_x, g_UF_y, g_UF_setzone)
/*@ clause post.ghost_results src=ghost only=replace */
__CPROVER_ensures(g_UF_setzone == setzone && (verif_thrown || (g_UF_zone == *zone && (g_UF_northp != 0) == (*northp != 0) && VERIF_SAME_D(g_UF_x, *x) && VERIF_SAME_D(g_UF_y, *y))))
