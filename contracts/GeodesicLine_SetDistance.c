/* Contract of  void GeodesicLine::SetDistance(real s13)   (src/GeodesicLine.cpp)
 * Source: C12 "a line that cannot locate the point at all (uninitialised, or asked for a distance without that capability) returns NaN":
 * the stored arc length of the third point is NaN in that case.  GenPosition is replaced by its contract. */
/*@ clause pre.line src=LineInit */
__CPROVER_requires(!self->_exact && self->_f1 > 0.0 && !isinf(self->_f1) && self->tiny_ > 0.0)
/*@ clause frame src=property props=C12 */
__CPROVER_assigns(self->_s13, self->_a13)
/*@ clause post.distance_stored src=header props=C12 */
__CPROVER_ensures(VERIF_SAME_D(self->_s13, s13))
/*@ clause post.nan_without_capability src=property props=C12 */
__CPROVER_ensures(!(self->_caps == 0U || (self->_caps & (0xFF80U & DISTANCE_IN)) == 0U) || isnan(self->_a13))
