/* Contract of  void GARS::Reverse(const std::string& gars, real& lat, real& lon, int& prec, bool centerp)
 * Oracle: GARS definition (see GARS_Forward.c).  The decoded coordinate is the rational n/24 degree (n an
 * integer from the characters, offset by -180 resp. -90 degrees), correctly rounded: one division.  -- C18, C13 */
/*@ ghost */
static const char gar_letters[] = "ABCDEFGHJKLMNPQRSTUVWXYZ";
#define GAR_C(i) VERIF_UP(gars->p[i])
#define GAR_LEN (gars->len)
#define GAR_INV (GAR_LEN >= 3 && GAR_C(0) == 'I' && GAR_C(1) == 'N' && GAR_C(2) == 'V')
#define GAR_ACC (!verif_thrown && !GAR_INV)
#define GAR_ISD(c) ((c) >= '0' && (c) <= '9')
#define GAR_IS24(c) ((c) >= 'A' && (c) <= 'Z' && (c) != 'I' && (c) != 'O')
#define GAR_B ((gars->p[0] - '0') * 100 + (gars->p[1] - '0') * 10 + (gars->p[2] - '0'))
#define GAR_G2 verif_ghost_idx2
#define GAR_G3 verif_ghost_idx3
#define GAR_LMATCH (GAR_G2 < 24 && GAR_G3 < 24 && GAR_C(3) == gar_letters[GAR_G2] && GAR_C(4) == gar_letters[GAR_G3])
#define GAR_L ((int)GAR_G2 * 24 + (int)GAR_G3)
#define GAR_Q (gars->p[5] - '1')
#define GAR_K (gars->p[6] - '1')
/* south-west corner in units of 5' (1/12 degree), from the characters */
#define GAR_X5 (6 * (GAR_B - 1) + (GAR_LEN >= 6 ? 3 * (GAR_Q % 2) : 0) + (GAR_LEN >= 7 ? GAR_K % 3 : 0))
#define GAR_Y5 (6 * GAR_L + (GAR_LEN >= 6 ? 3 * (1 - GAR_Q / 2) : 0) + (GAR_LEN >= 7 ? 2 - GAR_K / 3 : 0))
/* half cell size in units of 1/24 degree */
#define GAR_H24 (GAR_LEN == 5 ? 6 : GAR_LEN == 6 ? 3 : 1)
/*@ clause pre.string src=call-site */
__CPROVER_requires(gars->len >= 0 && gars->len < VERIF_STRCAP && __CPROVER_r_ok(gars->p, VERIF_STRCAP) && gars->p[gars->len] == 0)
/*@ clause frame src=property props=C13,C14 */
__CPROVER_assigns(*lat, *lon, *prec, verif_thrown)
/*@ clause post.no_other_exception src=property props=C13 */
__CPROVER_ensures(!verif_thrown_other)
/*@ clause post.throw_unchanged src=property props=C13 */
__CPROVER_ensures(!verif_thrown || (VERIF_SAME_D(*lat, __CPROVER_old(*lat)) && VERIF_SAME_D(*lon, __CPROVER_old(*lon)) && *prec == __CPROVER_old(*prec)))
/*@ clause post.invalid_nan src=property props=C18,C13 */
__CPROVER_ensures(!GAR_INV || (!verif_thrown && isnan(*lat) && isnan(*lon)))
/*@ clause post.accept_structure src=standard props=C18 */
__CPROVER_ensures(!GAR_ACC || (GAR_LEN >= 5 && GAR_LEN <= 7 && *prec == GAR_LEN - 5))
/*@ clause post.accept_alphabet src=standard props=C18 */
__CPROVER_ensures(!GAR_ACC || (GAR_ISD(gars->p[0]) && GAR_ISD(gars->p[1]) && GAR_ISD(gars->p[2]) && 1 <= GAR_B && GAR_B <= 720 &&
                               GAR_IS24(GAR_C(3)) && GAR_IS24(GAR_C(4)) &&
                               (GAR_LEN < 6 || (gars->p[5] >= '1' && gars->p[5] <= '4')) &&
                               (GAR_LEN < 7 || (gars->p[6] >= '1' && gars->p[6] <= '9'))))
/*@ clause post.accept_latband src=standard props=C18 */
__CPROVER_ensures(!GAR_ACC || !GAR_LMATCH || GAR_L < 360)
/*@ clause post.exactly_wellformed_accepted src=property props=C18 */
__CPROVER_ensures(!(!GAR_INV && GAR_LEN >= 5 && GAR_LEN <= 7 && GAR_ISD(gars->p[0]) && GAR_ISD(gars->p[1]) && GAR_ISD(gars->p[2]) &&
                    1 <= GAR_B && GAR_B <= 720 && GAR_LMATCH && GAR_L < 360 &&
                    (GAR_LEN < 6 || (gars->p[5] >= '1' && gars->p[5] <= '4')) &&
                    (GAR_LEN < 7 || (gars->p[6] >= '1' && gars->p[6] <= '9'))) || !verif_thrown)
/*@ clause post.value src=standard props=C18 */
__CPROVER_ensures(!GAR_ACC || !GAR_LMATCH ||
                  (*lon == (double)(2 * GAR_X5 + (centerp ? GAR_H24 : 0) - 180 * 24) / 24.0 &&
                   *lat == (double)(2 * GAR_Y5 + (centerp ? GAR_H24 : 0) - 90 * 24) / 24.0))
