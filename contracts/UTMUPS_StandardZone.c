/* Contract of  int UTMUPS::StandardZone(real lat, real lon, int setzone)   (src/UTMUPS.cpp)
 * Oracle: DMA TM8358.2 / the UTM standard: 6-degree zones numbered 1..60 eastwards from 180W; UPS outside
 * [80S, 84N); Norway: zone 32 widened to [3E, 12E) for 56N <= lat < 64N; Svalbard (lat >= 72N): zones 31, 33, 35, 37
 * on [0,9), [9,21), [21,33), [33,42).  zonespec: INVALID = -4, MATCH = -3, UTM = -2, STANDARD = -1, UPS = 0.  -- C04 */
/*@ uses Math_AngNormalize */
/*@ ghost */
#define SZ_LONF (g_AngNormalize_ret == 180.0 ? -180.0 : g_AngNormalize_ret)   /* longitude modulo 360 in [-180,180) */
#define SZ_RET __CPROVER_return_value
#define SZ_AUTO (!verif_thrown && setzone < 0 && setzone != -4 && !isnan(lat) && !isnan(lon) && !isinf(lon))
#define SZ_UTM (SZ_AUTO && (setzone == -2 || (lat >= -80.0 && lat < 84.0)))
#define SZ_NORWAY (lat >= 56.0 && lat < 64.0 && SZ_LONF >= 3.0 && SZ_LONF < 12.0)
#define SZ_SVALBARD (lat >= 72.0 && SZ_LONF >= 0.0 && SZ_LONF < 42.0)
/*@ clause pre.not_thrown src=call-site */
__CPROVER_requires(verif_thrown == 0)
/*@ clause frame src=property props=C13,C14 */
__CPROVER_assigns(verif_thrown, g_AngNormalize_arg, g_AngNormalize_ret, g_AngNormalize_calls)
/*@ clause post.no_other_exception src=property props=C13 */
__CPROVER_ensures(!verif_thrown_other)
/*@ clause post.throw_iff src=header props=C04,C13 */
__CPROVER_ensures((verif_thrown != 0) == (setzone < -4 || setzone > 60))
/*@ clause post.requested_zone src=header props=C04 */
__CPROVER_ensures(verif_thrown || !(setzone >= 0 || setzone == -4) || SZ_RET == setzone)
/*@ clause post.nan_invalid src=property props=C04,C13 */
__CPROVER_ensures(verif_thrown || !(setzone < 0 && setzone != -4 && (isnan(lat) || isnan(lon) || isinf(lon))) || SZ_RET == -4)
/*@ clause post.ups_iff src=standard props=C04 */
__CPROVER_ensures(!SZ_AUTO || ((SZ_RET == 0) == !(setzone == -2 || (lat >= -80.0 && lat < 84.0))))
/*@ clause post.lon_only_via_normalize src=property props=C04 */
__CPROVER_ensures(!SZ_UTM || (g_AngNormalize_calls == 1 && g_AngNormalize_arg == lon))
/*@ clause post.zone_range src=standard props=C04 */
__CPROVER_ensures(!SZ_UTM || (1 <= SZ_RET && SZ_RET <= 60))
/*@ clause post.six_degree_zone src=standard props=C04 */
__CPROVER_ensures(!SZ_UTM || SZ_NORWAY || SZ_SVALBARD || (6.0 * (SZ_RET - 31) <= SZ_LONF && SZ_LONF < 6.0 * (SZ_RET - 30)))
/*@ clause post.norway src=standard props=C04 */
__CPROVER_ensures(!SZ_UTM || !SZ_NORWAY || SZ_RET == 32)
/*@ clause post.svalbard src=standard props=C04 */
__CPROVER_ensures(!SZ_UTM || !SZ_SVALBARD ||
                  SZ_RET == (SZ_LONF < 9.0 ? 31 : SZ_LONF < 21.0 ? 33 : SZ_LONF < 33.0 ? 35 : 37))
