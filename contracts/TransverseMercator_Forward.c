/* ASSUMED contract of  void TransverseMercator::Forward(real lon0, real lat, real lon, real& x, real& y, real& gamma, real& k) const
 * for the UTM singleton (the body -- Krueger series -- is not verified: numeric, see DESIGN section 6).
 * Frame + "does not throw" + NaN-free for finite arguments; ghost copies of the results for the caller's postcondition. */
/*@ ghost */
double g_TM_x, g_TM_y, g_TM_gamma, g_TM_k, g_TM_lon0, g_TM_lat, g_TM_lon; unsigned g_TM_calls;
/*@ ghost-init */
g_TM_calls = 0;
/*@ clause frame src=assumed */
__CPROVER_assigns(*x, *y, *gamma, *k, g_TM_x, g_TM_y, g_TM_gamma, g_TM_k, g_TM_lon0, g_TM_lat, g_TM_lon, g_TM_calls)
/*@ clause post.ghost src=ghost */
__CPROVER_ensures(g_TM_calls == __CPROVER_old(g_TM_calls) + 1 && g_TM_lon0 == lon0 && g_TM_lat == lat && g_TM_lon == lon &&
                  VERIF_SAME_D(g_TM_x, *x) && VERIF_SAME_D(g_TM_y, *y) && VERIF_SAME_D(g_TM_gamma, *gamma) && VERIF_SAME_D(g_TM_k, *k))
/*@ clause post.finite src=assumed */
/* ASSUMED (not verified): for a finite position the projection returns numbers, not NaNs */
__CPROVER_ensures(isnan(lat) || isnan(lon) || isinf(lon) || fabs(lat) > 90.0 || (!isnan(*x) && !isnan(*y) && !isnan(*gamma) && !isnan(*k)))
