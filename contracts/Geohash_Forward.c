/* Contract of  void Geohash::Forward(real lat, real lon, int len, std::string& geohash)  (src/Geohash.cpp)
 * Oracle: the public geohash definition: base-32 alphabet 0123456789bcdefghjkmnpqrstuvwxyz, bits
 * alternate longitude / latitude starting with longitude, each bit halves the current interval
 * ([-180,180) resp. [-90,90)); character g carries stream bits 5g .. 5g+4, most significant first.
 * The position enters as the 46-bit integers U, V that the function computes (ghost captures cap_ulon,
 * cap_ulat of the locals ulon, ulat, rule R21): post.scaled ties them to the position,
 * U = floor(lonF / (180/2^45)) + 2^45 with lonF the longitude folded to [-180,180) (one binary64 rounding in the
 * division -- stated, not proved exact); post.cell_bits says stream bit j is bit (45 - j/2) of U (j even) or
 * of V (j odd).  -- C18 */
/*@ capture ulon:unsigned long long ulat:unsigned long long cap_lon=lon@ulon:double cap_lat=lat@ulon:double */
/*@ uses Math_AngNormalize */
/*@ ghost */
#define GH_LONF (g_AngNormalize_ret == 180.0 ? -180.0 : g_AngNormalize_ret)
#define GH_SHIFT 35184372088832.0   /* 2^45 */
#define GH_LATF (lat == 90.0 ? lat - (90.0 / GH_SHIFT) / 2 : lat)
#define GH_U cap_ulon
#define GH_V cap_ulat
#define GH_N (len < 0 ? 0 : len > 18 ? 18 : len)
#define GH_OK (!verif_thrown && !isnan(lat) && !isnan(lon) && !isinf(lon))
static const char gh_alphabet[] = "0123456789bcdefghjkmnpqrstuvwxyz";
/* stream bit number j (0 <= j < 90) */
#define GH_STREAMBIT(j) ((((j) % 2 == 0 ? GH_U : GH_V) >> (45 - (j) / 2)) & 1ULL)
/*@ clause pre.string src=call-site */
__CPROVER_requires(geohash->len >= 0 && geohash->len < VERIF_STRCAP && __CPROVER_rw_ok(geohash->p, VERIF_STRCAP))
/*@ clause frame src=property props=C13,C14 */
__CPROVER_assigns(geohash->len, __CPROVER_object_whole(geohash->p), verif_thrown,
                  g_AngNormalize_arg, g_AngNormalize_ret, g_AngNormalize_calls, cap_ulon, cap_ulat, cap_lon, cap_lat)
/*@ clause post.throw_iff src=property props=C13,C18 */
__CPROVER_ensures((verif_thrown != 0) == (fabs(lat) > 90.0))
/*@ clause post.no_other_exception src=property props=C13 */
__CPROVER_ensures(!verif_thrown_other)
/*@ clause post.throw_unchanged src=property props=C13 */
__CPROVER_ensures(!verif_thrown || (geohash->len == __CPROVER_old(geohash->len) &&
   geohash->p[verif_ghost_idx % VERIF_STRCAP] == __CPROVER_old(geohash->p[verif_ghost_idx % VERIF_STRCAP])))
/*@ clause post.nan_invalid src=property props=C13,C18 */
__CPROVER_ensures(verif_thrown || !(isnan(lat) || isnan(lon) || isinf(lon)) ||   /* AngNormalize(+-inf) is NaN */
   (geohash->len == 7 && geohash->p[0] == 'i' && geohash->p[1] == 'n' && geohash->p[2] == 'v' && geohash->p[3] == 'a' &&
    geohash->p[4] == 'l' && geohash->p[5] == 'i' && geohash->p[6] == 'd'))
/*@ clause post.lon_only_via_normalize src=property props=C18 */
__CPROVER_ensures(!GH_OK || (g_AngNormalize_calls == 1 && g_AngNormalize_arg == lon))
/*@ clause post.length src=property props=C18 */
__CPROVER_ensures(!GH_OK || geohash->len == GH_N)
/*@ clause post.alphabet src=property props=C18 */
__CPROVER_ensures(!GH_OK || !(verif_ghost_idx < (size_t)geohash->len) ||
   ((geohash->p[verif_ghost_idx] >= '0' && geohash->p[verif_ghost_idx] <= '9') ||
    (geohash->p[verif_ghost_idx] >= 'b' && geohash->p[verif_ghost_idx] <= 'z' && geohash->p[verif_ghost_idx] != 'i' &&
     geohash->p[verif_ghost_idx] != 'l' && geohash->p[verif_ghost_idx] != 'o')))
/*@ clause post.scaled_input src=standard props=C18 */
__CPROVER_ensures(!GH_OK || (cap_lon == GH_LONF && cap_lat == GH_LATF))
/*@ clause post.scaled_range src=standard props=C18 */
__CPROVER_ensures(!GH_OK || (cap_ulon < (1ULL << 46) && cap_ulat < (1ULL << 46)))
/*@ clause post.scaled src=standard props=C18 tier=thorough */
__CPROVER_ensures(!GH_OK || (cap_ulon == (unsigned long long)(floor(cap_lon / (180.0 / GH_SHIFT)) + GH_SHIFT) &&
                             cap_ulat == (unsigned long long)(floor(cap_lat / (90.0 / GH_SHIFT)) + GH_SHIFT)))
/*@ clause post.cell_bits src=standard props=C18 */
__CPROVER_ensures(!GH_OK || !(verif_ghost_idx < (size_t)geohash->len && verif_ghost_idx2 < 32 && verif_ghost_idx3 < 5) ||
   geohash->p[verif_ghost_idx] != gh_alphabet[verif_ghost_idx2] ||
   ((verif_ghost_idx2 >> (4 - verif_ghost_idx3)) & 1) == GH_STREAMBIT(5 * verif_ghost_idx + verif_ghost_idx3))
/*@ clause post.terminated src=model */
__CPROVER_ensures(verif_thrown || geohash->p[geohash->len] == 0)
