/* Contract of the constructor  PolygonAreaT<Geodesic>::PolygonAreaT(const Geodesic& earth, bool polyline)  and of Clear()  (PolygonArea.hpp, inline)
 * Source: C08: an empty history -- no vertices, no crossings, zero sums, undefined (NaN) points -- and the solver mask every later operation uses:
 * position and distance always, area and unrolled longitude only for polygons.  This ESTABLISHES the invariant PA_MASK_OK that the contracts of
 * AddEdge / Compute / TestPoint / TestEdge take as a precondition.
 * REWRITES (R16): the copy of the solver object `_earth(earth)` -> struct copy, `acc = 0` -> the two assignments of Accumulator::operator=(T)
 * (definition checked textually). */
/*@ uses PolygonArea_common */
/*@ clause frame src=property */
__CPROVER_assigns(*self)
/*@ clause post.mask src=header props=C08 */
__CPROVER_ensures(PA_MASK_OK && self->_polyline == polyline)
/*@ clause post.empty_history src=header props=C08 */
__CPROVER_ensures(self->_num == 0 && self->_crossings == 0 && self->_areasum._s == 0.0 && self->_areasum._t == 0.0 &&
                  self->_perimetersum._s == 0.0 && self->_perimetersum._t == 0.0 &&
                  isnan(self->_lat0) && isnan(self->_lon0) && isnan(self->_lat1) && isnan(self->_lon1))
