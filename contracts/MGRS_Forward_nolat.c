/* Contract of  void MGRS::Forward(int zone, bool northp, real x, real y, int prec, std::string& mgrs)   (src/MGRS.cpp)
 * -- the overload that determines the latitude band itself (cheap bounds on the latitude, falling back to UTMUPS::Reverse).
 * Source: C05 / C13: a failing call leaves its output unchanged, only GeographicErr, NaN coordinates give "INVALID"; everything about the
 * string itself is the contract of the 7-argument overload (MGRS_Forward.c), which is what this function ends with. */
/*@ uses MGRS_Forward UTMUPS_Reverse */
/*@ clause pre.string src=call-site */
__CPROVER_requires(verif_thrown == 0 && mgrs->len >= 0 && mgrs->len < VERIF_STRCAP && __CPROVER_rw_ok(mgrs->p, VERIF_STRCAP))
/*@ clause frame src=property props=C13,C14 */
__CPROVER_assigns(mgrs->len, __CPROVER_object_whole(mgrs->p), verif_thrown,
                  g_TMR_lon0, g_TMR_x, g_TMR_y, g_TMR_lat, g_TMR_lon, g_TMR_gamma, g_TMR_k, g_TMR_calls,
                  g_PSR_x, g_PSR_y, g_PSR_lat, g_PSR_lon, g_PSR_gamma, g_PSR_k, g_PSR_calls, g_PSR_northp)
/*@ clause post.no_other_exception src=property props=C13 */
__CPROVER_ensures(!verif_thrown_other)
/*@ clause post.throw_unchanged src=property props=C13,C05 */
__CPROVER_ensures(!verif_thrown || (mgrs->len == __CPROVER_old(mgrs->len) &&
   mgrs->p[verif_ghost_idx % VERIF_STRCAP] == __CPROVER_old(mgrs->p[verif_ghost_idx % VERIF_STRCAP])))
/*@ clause post.invalid src=property props=C13,C05 */
__CPROVER_ensures(!(zone == -4 || isnan(x) || isnan(y)) || (!verif_thrown && mgrs->len == 7 && mgrs->p[0] == 'I' && mgrs->p[1] == 'N' && mgrs->p[2] == 'V'))
/*@ clause post.length src=property props=C05 */
/* (the reverse projection is an assumed contract that may return a NaN latitude, which the 7-argument overload turns into "INVALID") */
__CPROVER_ensures(verif_thrown || zone == -4 || isnan(x) || isnan(y) || prec < -1 || prec > 11 || mgrs->len == 7 || mgrs->len == (zone != 0 ? 2 : 0) + 3 + 2 * prec)
