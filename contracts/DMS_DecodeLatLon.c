/* Contract of  void DMS::DecodeLatLon(const std::string& stra, const std::string& strb, real& lat, real& lon, bool longfirst)
 * Source: C10 "either coordinate order", DMS.hpp: hemisphere letters decide which string is the latitude; without them the
 * order is lat, lon unless longfirst; two latitudes or two longitudes are rejected; |lat| > 90 is rejected. */
/*@ uses DMS_Decode */
/*@ ghost */
#define DLL_A g_Decode_val[0]
#define DLL_B g_Decode_val[1]
#define DLL_IA g_Decode_ind[0]
#define DLL_IB g_Decode_ind[1]
/* which of the two is the latitude: by hemisphere flags (1 = LATITUDE, 2 = LONGITUDE), else by position */
#define DLL_A_IS_LAT (DLL_IA == 1 || (DLL_IA == 0 && (DLL_IB == 2 || (DLL_IB == 0 && !longfirst))))
/*@ clause pre.not_thrown src=call-site */
__CPROVER_requires(verif_thrown == 0)
/*@ clause frame src=property props=C13,C14 */
__CPROVER_assigns(*lat, *lon, verif_thrown, g_Decode_calls, __CPROVER_object_whole(g_Decode_val), __CPROVER_object_whole(g_Decode_ind))
/*@ clause post.no_other_exception src=property props=C13 */
__CPROVER_ensures(!verif_thrown_other)
/*@ clause post.throw_unchanged src=property props=C13,C10 */
__CPROVER_ensures(!verif_thrown || (VERIF_SAME_D(*lat, __CPROVER_old(*lat)) && VERIF_SAME_D(*lon, __CPROVER_old(*lon))))
/*@ clause post.two_decodes src=property props=C10 */
__CPROVER_ensures(verif_thrown || g_Decode_calls == 2)
/*@ clause post.order src=header props=C10 */
__CPROVER_ensures(verif_thrown || (DLL_A_IS_LAT ? (VERIF_SAME_D(*lat, DLL_A) && VERIF_SAME_D(*lon, DLL_B)) : (VERIF_SAME_D(*lat, DLL_B) && VERIF_SAME_D(*lon, DLL_A))))
/*@ clause post.same_kind_rejected src=header props=C10 */
__CPROVER_ensures(verif_thrown || !((DLL_IA == 1 && DLL_IB == 1) || (DLL_IA == 2 && DLL_IB == 2)))
/*@ clause post.lat_range src=header props=C10 */
__CPROVER_ensures(verif_thrown || !(fabs(*lat) > 90.0))
