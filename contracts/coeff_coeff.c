/* Contract of the constructor  SphericalEngine::coeff::coeff(const std::vector<real>& C, const std::vector<real>& S, int N, int nmx, int mmx)
 * (SphericalEngine.hpp, inline).  Source: C19 / C13: "GeographicErr if N, nmx, mmx do not satisfy N >= nmx >= mmx >= -1 (with nmx = -1
 * when mmx = -1)" and "if C or S is not big enough to hold the coefficients": the object is only built when the LAST slot the sums can
 * read -- slot(nmx, mmx) of the packed triangle of degree N -- lies inside both vectors (S without its first N + 1 unused entries).
 * This is what makes the reads of Cv / Sv in-bounds (their precondition).  N is bounded by 32767 (see coeff_index.c, finding F4).
 * REWRITES (R16): C.begin() -> C.p, C.size() -> C.n of the (pointer, length) view of std::vector<real>. */
/*@ ghost */
#define CC_SLOT(nn, mm) ((long long)(mm) * N - (long long)(mm) * ((mm) - 1) / 2 + (nn))
#define CC_IDX_OK ((N >= nmx && nmx >= mmx && mmx >= 0) || (nmx == -1 && mmx == -1))
#define CC_SIZE_OK (CC_SLOT(nmx, mmx) < (long long)C->n && CC_SLOT(nmx, mmx) < (long long)S->n + N + 1)
/*@ clause pre.bounds src=documented-bound */
__CPROVER_requires(verif_thrown == 0 && -32768 <= N && N <= 32767 && C->n >= 0 && S->n >= 0 && C->n <= 1073741824 && S->n <= 1073741824)
/*@ clause frame src=property */
__CPROVER_assigns(*self, verif_thrown, g_RootTable_N)
/*@ clause post.rejects src=header props=C19,C13 */
__CPROVER_ensures((verif_thrown != 0) == !(CC_IDX_OK && CC_SIZE_OK))
/*@ clause post.no_other_exception src=property props=C13 */
__CPROVER_ensures(!verif_thrown_other)
/*@ clause post.stores src=constructor props=C19 */
__CPROVER_ensures(verif_thrown || (self->_nNx == N && self->_nmx == nmx && self->_mmx == mmx && self->_cCnm == C->p && self->_sSnm == S->p))
