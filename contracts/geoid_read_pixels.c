/* Contract-only stand-in for  Utility::readarray<pixel_t, pixel_t, true>(_file, &(_data[row][col]), count)  as called by Geoid::CacheArea
 * (binary stream I/O and std::vector storage are outside the extraction).  Its PRECONDITION is the specification of the area cache -- checked
 * at both call sites for every row:
 *   - the destination lies inside row `row` of the cache (which has _ysize rows of _xsize pixels);
 *   - the read does not run past the end of the raster row the file position is in;
 *   - the pixels read are the ones rawval() will later look for there: cache row r stands for raster row iy = _yoffset + r, reflected at a
 *     pole if iy is outside the grid; cache column c for raster column (_xoffset + c) mod w, turned by half a period beyond a pole
 *     (Geoid.hpp, rawval: the cache is consulted BEFORE the pole reflection, so a cached polar row must already hold the reflected pixels);
 *   - rows are filled left to right without gaps (ghost g_fill_next), a new row starts only when the previous one is complete. */
/*@ uses Geoid_filepos */
/*@ ghost */
int g_fill_row, g_fill_next;
#define RP_W (self->_width)
#define RP_H (self->_height)
#define RP_IY(r) (self->_yoffset + (r))
#define RP_POLAR(r) (RP_IY(r) < 0 || RP_IY(r) >= RP_H)
#define RP_FILEROW(r) (RP_IY(r) < 0 ? -RP_IY(r) : RP_IY(r) >= RP_H ? 2 * (RP_H - 1) - RP_IY(r) : RP_IY(r))
#define RP_FILECOL(r, c) (((self->_xoffset + (c)) + (RP_POLAR(r) ? RP_W / 2 : 0)) % RP_W)
/*@ ghost-init */
g_fill_row = -1; g_fill_next = 0;
/*@ prototype */
void geoid_read_pixels(struct Geoid *self, int row, int col, int count)
/*@ clause pre.destination src=CacheArea */
__CPROVER_requires(0 <= row && row < self->_ysize && 0 <= col && count >= 1 && col <= self->_xsize - count)
/*@ clause pre.inside_raster_row src=format */
__CPROVER_requires(g_geoid_file_ix <= RP_W - count)
/*@ clause pre.pixels src=Geoid.hpp */
__CPROVER_requires(g_geoid_file_iy == RP_FILEROW(row) && g_geoid_file_ix == RP_FILECOL(row, col))
/*@ clause pre.no_gaps src=CacheArea */
__CPROVER_requires(row == g_fill_row ? col == g_fill_next : (col == 0 && (g_fill_row == -1 || (row == g_fill_row + 1 && g_fill_next == self->_xsize))))
/*@ clause frame src=assumed */
__CPROVER_assigns(g_fill_row, g_fill_next, g_geoid_file_ix)
/*@ clause post.ghost src=ghost */
__CPROVER_ensures(g_fill_row == row && g_fill_next == col + count && g_geoid_file_ix == __CPROVER_old(g_geoid_file_ix) + count)
