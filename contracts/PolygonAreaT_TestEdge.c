/* Contract of  unsigned PolygonAreaT<Geodesic>::TestEdge(real azi, real s, bool reverse, bool sign, real& perimeter, real& area) const
 * Source: C08 as TestPoint, for a tentative edge: the direct problem from the current vertex, then the closing geodesic from its end
 * point to the first vertex; crossings of the unrolled direct edge plus those of the closing edge; no starting point -> NaN, 0. */
/*@ uses PolygonArea_common */
/*@ clause pre.invariant src=constructor */
__CPROVER_requires(PA_SMALL && PA_MASK_OK && PA_SOLVER_OK && self->_area0 >= 1.0 && self->_area0 <= 1e300)
/*@ clause frame src=property props=C08,C14 */
__CPROVER_assigns(*perimeter; !self->_polyline: *area; PA_GHOSTS_GI, PA_GHOSTS_GD, PA_GHOSTS_AR)
/*@ clause post.count src=property props=C08 */
__CPROVER_ensures(__CPROVER_return_value == (self->_num == 0 ? 0U : self->_num + 1))
/*@ clause post.no_start src=property props=C08 */
__CPROVER_ensures(self->_num != 0 || (isnan(*perimeter) && (self->_polyline || isnan(*area)) && g_GI_calls == 0 && g_GD_calls == 0 && g_AR_calls == 0))
/*@ clause post.polyline src=property props=C08 */
__CPROVER_ensures(self->_num == 0 || !self->_polyline || ((!(PA_SMALLINT(self->_perimetersum._s) && PA_SMALLINT(s)) || *perimeter == self->_perimetersum._s + s) && g_GI_calls == 0 && g_GD_calls == 0 && g_AR_calls == 0))
/*@ clause post.new_edge src=property props=C08 */
__CPROVER_ensures(self->_num == 0 || self->_polyline ||
   (g_GD_calls == 1 && VERIF_SAME_D(g_GD_lat1, self->_lat1) && VERIF_SAME_D(g_GD_lon1, self->_lon1) && VERIF_SAME_D(g_GD_azi1, azi) && !g_GD_arcmode &&
    VERIF_SAME_D(g_GD_s12_a12, s) && g_GD_mask == self->_mask))
/*@ clause post.closing_edge src=property props=C08 */
__CPROVER_ensures(self->_num == 0 || self->_polyline ||
   (g_GI_calls == 1 && VERIF_SAME_D(g_GI_lat1[0], g_GD_lat2) && VERIF_SAME_D(g_GI_lon1[0], g_GD_lon2) && VERIF_SAME_D(g_GI_lat2[0], self->_lat0) &&
    VERIF_SAME_D(g_GI_lon2[0], self->_lon0) && g_GI_mask[0] == self->_mask))
/*@ clause post.perimeter src=property props=C08 */
__CPROVER_ensures(self->_num == 0 || self->_polyline || !(PA_SMALLINT(self->_perimetersum._s) && PA_SMALLINT(s) && PA_SMALLINT(g_GI_s12[0])) ||
                  *perimeter == self->_perimetersum._s + s + g_GI_s12[0])
/*@ clause post.area src=property props=C08 */
__CPROVER_ensures(self->_num == 0 || self->_polyline ||
   (g_AR_calls == 1 && (!(PA_SMALLINT(self->_areasum._s) && PA_SMALLINT(g_GD_S12) && PA_SMALLINT(g_GI_S12[0])) || g_AR_in == self->_areasum._s + g_GD_S12 + g_GI_S12[0]) &&
    /* (the end point of the direct edge, where it is a number: NaNs of different payload are different arguments of the uninterpreted count) */
    (isnan(g_GD_lon2) || g_AR_crossings == self->_crossings + __CPROVER_uninterpreted_transitdirect(self->_lon1, g_GD_lon2) + __CPROVER_uninterpreted_transit(g_GD_lon2, self->_lon0)) &&
    g_AR_reverse == reverse && g_AR_sign == sign && VERIF_SAME_D(*area, 0.0 + g_AR_out)))
