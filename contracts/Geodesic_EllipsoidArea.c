/* ASSUMED contract of the inline  Math::real Geodesic::EllipsoidArea() const  (4 pi c2: numeric).  Frame only: writes nothing. */
/*@ clause frame src=assumed */
__CPROVER_requires(1)
__CPROVER_assigns()
__CPROVER_ensures(1)
