/* Contract of  void Georef::Forward(real lat, real lon, int prec, std::string& georef)  (src/Georef.cpp)
 * Oracle: the World Geographic Reference System definition (15-degree tiles lettered A..Z without I,O
 * eastwards from 180W and A..M northwards from 90S; 1-degree cells lettered A..Q; minutes) written as
 * containment inequalities on the normalised longitude / latitude -- C18. */
/*@ uses Math_AngNormalize */
/*@ ghost */
#define GEOREF_LONN (g_AngNormalize_ret == 180.0 ? -180.0 : g_AngNormalize_ret)   /* longitude modulo 360 in [-180,180) */
#define GEOREF_P ((prec < -1 ? -1 : prec > 11 ? 11 : prec) == 1 ? 2 : (prec < -1 ? -1 : prec > 11 ? 11 : prec))
#define GEOREF_OK (!verif_thrown && !isnan(lat) && !isnan(lon) && !isinf(lon))
static const char georef_lontile[] = "ABCDEFGHJKLMNPQRSTUVWXYZ";
static const char georef_lattile[] = "ABCDEFGHJKLM";
static const char georef_degrees[] = "ABCDEFGHJKLMNPQ";
/*@ clause pre.string src=call-site */
__CPROVER_requires(georef->len >= 0 && georef->len < VERIF_STRCAP && __CPROVER_rw_ok(georef->p, VERIF_STRCAP))
/*@ clause frame src=property props=C13,C14 */
__CPROVER_assigns(georef->len, __CPROVER_object_whole(georef->p), verif_thrown,
                  g_AngNormalize_arg, g_AngNormalize_ret, g_AngNormalize_calls)
/*@ clause post.throw_iff src=property props=C13,C18 */
__CPROVER_ensures((verif_thrown != 0) == (fabs(lat) > 90.0))
/*@ clause post.no_other_exception src=property props=C13 */
__CPROVER_ensures(!verif_thrown_other)
/*@ clause post.throw_unchanged src=property props=C13 */
__CPROVER_ensures(!verif_thrown || (georef->len == __CPROVER_old(georef->len) &&
   georef->p[verif_ghost_idx % VERIF_STRCAP] == __CPROVER_old(georef->p[verif_ghost_idx % VERIF_STRCAP])))
/*@ clause post.nan_invalid src=property props=C13,C18 */
__CPROVER_ensures(verif_thrown || !(isnan(lat) || isnan(lon) || isinf(lon)) ||   /* AngNormalize(+-inf) is NaN */
   (georef->len == 7 && georef->p[0] == 'I' && georef->p[1] == 'N' && georef->p[2] == 'V' && georef->p[3] == 'A' &&
    georef->p[4] == 'L' && georef->p[5] == 'I' && georef->p[6] == 'D'))
/*@ clause post.lon_only_via_normalize src=property props=C18 */
__CPROVER_ensures(!GEOREF_OK || (g_AngNormalize_calls == 1 && g_AngNormalize_arg == lon))
/*@ clause post.length src=property props=C18 */
__CPROVER_ensures(!GEOREF_OK || georef->len == 4 + 2 * GEOREF_P)
/*@ clause post.lontile src=standard props=C18 */
__CPROVER_ensures(!GEOREF_OK || !(verif_ghost_idx < 24) || georef->p[0] != georef_lontile[verif_ghost_idx] ||
   (15.0 * (double)verif_ghost_idx - 180.0 <= GEOREF_LONN && GEOREF_LONN < 15.0 * (double)verif_ghost_idx - 165.0))
/*@ clause post.lontile_alphabet src=property props=C18 */
__CPROVER_ensures(!GEOREF_OK || (georef->p[0] >= 'A' && georef->p[0] <= 'Z' && georef->p[0] != 'I' && georef->p[0] != 'O'))
/*@ clause post.lattile src=standard props=C18 */
__CPROVER_ensures(!GEOREF_OK || !(verif_ghost_idx2 < 12) || georef->p[1] != georef_lattile[verif_ghost_idx2] ||
   (15.0 * (double)verif_ghost_idx2 - 90.0 <= lat && (lat < 15.0 * (double)verif_ghost_idx2 - 75.0 || (lat == 90.0 && verif_ghost_idx2 == 11))))
/*@ clause post.lattile_alphabet src=property props=C18 */
__CPROVER_ensures(!GEOREF_OK || (georef->p[1] >= 'A' && georef->p[1] <= 'M' && georef->p[1] != 'I'))
/*@ clause post.londeg src=standard props=C18 */
__CPROVER_ensures(!GEOREF_OK || GEOREF_P < 0 || !(verif_ghost_idx < 24 && verif_ghost_idx3 < 15) ||
   georef->p[0] != georef_lontile[verif_ghost_idx] || georef->p[2] != georef_degrees[verif_ghost_idx3] ||
   (15.0 * (double)verif_ghost_idx - 180.0 + (double)verif_ghost_idx3 <= GEOREF_LONN &&
    GEOREF_LONN < 15.0 * (double)verif_ghost_idx - 179.0 + (double)verif_ghost_idx3))
/*@ clause post.latdeg src=standard props=C18 */
__CPROVER_ensures(!GEOREF_OK || GEOREF_P < 0 || !(verif_ghost_idx2 < 12 && verif_ghost_idx4 < 15) ||
   georef->p[1] != georef_lattile[verif_ghost_idx2] || georef->p[3] != georef_degrees[verif_ghost_idx4] ||
   (15.0 * (double)verif_ghost_idx2 - 90.0 + (double)verif_ghost_idx4 <= lat &&
    (lat < 15.0 * (double)verif_ghost_idx2 - 89.0 + (double)verif_ghost_idx4 || (lat == 90.0 && verif_ghost_idx2 == 11 && verif_ghost_idx4 == 14))))
/*@ clause post.deg_alphabet src=property props=C18 */
__CPROVER_ensures(!GEOREF_OK || GEOREF_P < 0 ||
   (georef->p[2] >= 'A' && georef->p[2] <= 'Q' && georef->p[2] != 'I' && georef->p[2] != 'O' &&
    georef->p[3] >= 'A' && georef->p[3] <= 'Q' && georef->p[3] != 'I' && georef->p[3] != 'O'))
/*@ clause post.digits_alphabet src=property props=C18 */
__CPROVER_ensures(!GEOREF_OK || !(4 <= verif_ghost_idx && verif_ghost_idx < (size_t)georef->len) ||
   (georef->p[verif_ghost_idx] >= '0' && georef->p[verif_ghost_idx] <= '9'))
/*@ clause post.minutes_lt_60 src=standard props=C18 */
__CPROVER_ensures(!GEOREF_OK || GEOREF_P < 2 || (georef->p[4] <= '5' && georef->p[4 + GEOREF_P] <= '5'))
/*@ clause post.terminated src=model */
__CPROVER_ensures(verif_thrown || georef->p[georef->len] == 0)
