/* Contract of  static int SphericalEngine::coeff::Csize(int N, int M)   (SphericalEngine.hpp, inline)
 * Source: C13 "No input whatsoever, numeric, textual or a malformed data file, causes ... signed integer overflow";
 * C19 (coefficient addressing): the number of cosine coefficients of a triangular set truncated at degree N, order M.
 * Precondition: exactly what coeff::readcoeffs checks on the two header integers of a coefficient FILE before it calls Csize
 * (so N, M are otherwise arbitrary 32-bit values read from the file). */
/*@ clause pre.header_check src=call-site */
__CPROVER_requires((N >= M && M >= 0) || (N == -1 && M == -1))
/*@ clause frame src=property props=C14 */
__CPROVER_assigns()
/*@ clause post.count src=definition props=C19,C13 */
/* (M+1) rows m = 0..M holding N-m+1 entries each; evaluated in 64 bits */
__CPROVER_ensures((long long)__CPROVER_return_value == ((long long)M + 1) * (2LL * N - M + 2) / 2 && __CPROVER_return_value >= 0)
