/* Contract of  template<typename T> void PolygonAreaT<GeodType>::AreaReduce(T& area, int crossings, bool reverse, bool sign) const
 * Source: C08 / PolygonArea.hpp: the accumulated area is reduced modulo the ellipsoid area A; an odd number of crossings adds
 * half of A; reverse / sign select the traversal and sign convention: result in [-A/2, A/2] with sign, else in [0, A]
 * (closed: the open ends of the documentation are not attainable after a rounded addition of A). */
/*@ ghost */
#define AR_A (self->_area0)
/* halves are stated by doubling the other side: x + x is exact, while every A/2 written here would add a divider circuit to the formula */
#define AR_D(x) ((x) + (x))
#define AR_IN __CPROVER_old(*area)
#define AR_ODD ((crossings & 1) != 0)
/* for callers (TestPoint / TestEdge): what was reduced, with which crossing count and conventions, and what came out */
unsigned g_AR_calls; int g_AR_crossings; _Bool g_AR_reverse, g_AR_sign; double g_AR_in, g_AR_out;
/*@ ghost-init */
g_AR_calls = 0;
/*@ clause pre.area0 src=constructor */
/* the ellipsoid area stored by the constructor is a positive finite number (>= 1 m^2) */
__CPROVER_requires(AR_A >= 1.0 && AR_A <= 1e300)
/*@ clause frame src=property props=C14 only=enforce */
__CPROVER_assigns(*area, vm_last_k)
/*@ clause frame.caller src=property only=replace */
__CPROVER_assigns(*area, g_AR_calls, g_AR_crossings, g_AR_reverse, g_AR_sign, g_AR_in, g_AR_out)
/*@ clause post.ghost src=ghost only=replace */
__CPROVER_ensures(g_AR_calls == __CPROVER_old(g_AR_calls) + 1 && g_AR_crossings == crossings && g_AR_reverse == reverse && g_AR_sign == sign &&
                  VERIF_SAME_D(g_AR_in, AR_IN) && VERIF_SAME_D(g_AR_out, *area))
/*@ clause post.range src=header props=C08 only=enforce */
__CPROVER_ensures(isnan(AR_IN) || isinf(AR_IN) || (sign ? (-AR_A <= AR_D(*area) && AR_D(*area) <= AR_A) : (0.0 <= *area && *area <= AR_A)))
/*@ clause post.zero_area src=header props=C08 only=enforce */
/* "an odd number of crossings adds half of A": a zero sum with an odd crossing count is half the ellipsoid, whatever the conventions */
__CPROVER_ensures(AR_IN != 0.0 || (AR_ODD ? AR_D(*area) == AR_A : *area == 0.0))
/*@ clause post.even_signed src=header props=C08 only=enforce */
/* reverse / sign conventions, stated where every step is exact (|area| < A/2, even count): counter-clockwise area is minus the
   clockwise sum unless `reverse`; the signed result needs no wrapping, the unsigned one is wrapped into [0, A) by one addition of A */
__CPROVER_ensures(AR_ODD || !(AR_D(fabs(AR_IN)) < AR_A) || !sign || *area == (reverse ? AR_IN : -AR_IN))
/*@ clause post.even_unsigned src=header props=C08 only=enforce */
__CPROVER_ensures(AR_ODD || !(AR_D(fabs(AR_IN)) < AR_A) || sign ||
                  *area == ((reverse ? AR_IN : -AR_IN) < 0 ? (reverse ? AR_IN : -AR_IN) + AR_A : (reverse ? AR_IN : -AR_IN)))
/*@ clause post.odd_magnitude src=header props=C08 only=enforce */
/* odd count, |area| <= A/2, signed convention: the magnitude is A/2 - |area| (half the ellipsoid minus the sum), up to the one rounding of
   that subtraction; the sign follows the conventions */
__CPROVER_ensures(!AR_ODD || !(AR_D(fabs(AR_IN)) <= AR_A) || !sign || AR_IN == 0.0 || AR_D(fabs(*area)) == AR_A - AR_D(fabs(AR_IN)))
