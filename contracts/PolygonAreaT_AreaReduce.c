/* Contract of  template<typename T> void PolygonAreaT<GeodType>::AreaReduce(T& area, int crossings, bool reverse, bool sign) const
 * Source: C08 / PolygonArea.hpp: the accumulated area is reduced modulo the ellipsoid area A; an odd number of crossings adds
 * half of A; reverse / sign select the traversal and sign convention: result in [-A/2, A/2] with sign, else in [0, A]
 * (closed: the open ends of the documentation are not attainable after a rounded addition of A). */
/*@ ghost */
#define AR_A (self->_area0)
/*@ clause pre.area0 src=constructor */
__CPROVER_requires(AR_A >= 1.0 && !isinf(AR_A) && !isnan(*area) && !isinf(*area))
/*@ clause frame src=property props=C14 */
__CPROVER_assigns(*area, vm_last_k)
/*@ clause post.range src=header props=C08 */
__CPROVER_ensures(sign ? (-AR_A / 2 <= *area && *area <= AR_A / 2) : (0.0 <= *area && *area <= AR_A))
