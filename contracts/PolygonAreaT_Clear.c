/* Contract of  void PolygonAreaT<Geodesic>::Clear()   (PolygonArea.hpp, inline): an empty history.
 * REWRITES (R16): `acc = 0` -> the two assignments of Accumulator::operator=(T) (its definition is checked textually on every run). */
/*@ clause frame src=property props=C08 */
__CPROVER_assigns(self->_num, self->_crossings, self->_areasum, self->_perimetersum, self->_lat0, self->_lon0, self->_lat1, self->_lon1)
/*@ clause post.empty_history src=header props=C08 */
__CPROVER_ensures(self->_num == 0 && self->_crossings == 0 && self->_areasum._s == 0.0 && self->_areasum._t == 0.0 &&
                  self->_perimetersum._s == 0.0 && self->_perimetersum._t == 0.0 &&
                  isnan(self->_lat0) && isnan(self->_lon0) && isnan(self->_lat1) && isnan(self->_lon1))
