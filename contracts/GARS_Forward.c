/* Contract of  void GARS::Forward(real lat, real lon, int prec, std::string& gars)   (src/GARS.cpp)
 * Oracle: Global Area Reference System: 30' cells numbered 001..720 eastwards from 180W and lettered
 * AA..QZ (24-letter alphabet without I,O) northwards from 90S; 15' quadrants 1..4 (1 = NW, 2 = NE, 3 = SW,
 * 4 = SE); 5' keypad areas 1..9 (rows from the north, columns from the west).
 * The position enters at 5' resolution through the integers the function computes (ghost captures cap_x,
 * cap_y of the locals x, y, rule R21): post.scaled ties them to the position, I = floor(12 * lonF) + 2160,
 * J = floor(12 * latF) + 1080 (one binary64 rounding each -- stated, not proved exact).  Containment is
 * stated on I, J. -- C18 */
/*@ capture x:int y:int cap_lon=lon@x:double cap_lat=lat@x:double */
/*@ uses Math_AngNormalize */
/*@ ghost */
#define GARS_LONF (g_AngNormalize_ret == 180.0 ? -180.0 : g_AngNormalize_ret)
#define GARS_LATF (lat == 90.0 ? 90.0 * (1 - DBL_EPSILON / 2) : lat)      /* north pole -> last row */
#define GARS_I cap_x
#define GARS_J cap_y
#define GARS_P (prec < 0 ? 0 : prec > 2 ? 2 : prec)
#define GARS_OK (!verif_thrown && !isnan(lat) && !isnan(lon) && !isinf(lon))
#define GARS_B ((gars->p[0] - '0') * 100 + (gars->p[1] - '0') * 10 + (gars->p[2] - '0'))
static const char gars_letters[] = "ABCDEFGHJKLMNPQRSTUVWXYZ";
#define GARS_ISLETTER(c) ((c) >= 'A' && (c) <= 'Z' && (c) != 'I' && (c) != 'O')
#define GARS_ISDIGIT(c) ((c) >= '0' && (c) <= '9')
/* L = row number 0..359 when p[3], p[4] are letters number g2, g3 of the alphabet */
#define GARS_L ((int)verif_ghost_idx2 * 24 + (int)verif_ghost_idx3)
#define GARS_LMATCH (verif_ghost_idx2 < 24 && verif_ghost_idx3 < 24 && gars->p[3] == gars_letters[verif_ghost_idx2] && gars->p[4] == gars_letters[verif_ghost_idx3])
/*@ clause pre.string src=call-site */
__CPROVER_requires(gars->len >= 0 && gars->len < VERIF_STRCAP && __CPROVER_rw_ok(gars->p, VERIF_STRCAP))
/*@ clause frame src=property props=C13,C14 */
__CPROVER_assigns(gars->len, __CPROVER_object_whole(gars->p), verif_thrown,
                  g_AngNormalize_arg, g_AngNormalize_ret, g_AngNormalize_calls, cap_x, cap_y, cap_lon, cap_lat)
/*@ clause post.throw_iff src=property props=C13,C18 */
__CPROVER_ensures((verif_thrown != 0) == (fabs(lat) > 90.0))
/*@ clause post.no_other_exception src=property props=C13 */
__CPROVER_ensures(!verif_thrown_other)
/*@ clause post.throw_unchanged src=property props=C13 */
__CPROVER_ensures(!verif_thrown || (gars->len == __CPROVER_old(gars->len) &&
   gars->p[verif_ghost_idx % VERIF_STRCAP] == __CPROVER_old(gars->p[verif_ghost_idx % VERIF_STRCAP])))
/*@ clause post.nan_invalid src=property props=C13,C18 */
__CPROVER_ensures(verif_thrown || !(isnan(lat) || isnan(lon) || isinf(lon)) ||   /* AngNormalize(+-inf) is NaN */
   (gars->len == 7 && gars->p[0] == 'I' && gars->p[1] == 'N' && gars->p[2] == 'V' && gars->p[3] == 'A' &&
    gars->p[4] == 'L' && gars->p[5] == 'I' && gars->p[6] == 'D'))
/*@ clause post.lon_only_via_normalize src=property props=C18 */
__CPROVER_ensures(!GARS_OK || (g_AngNormalize_calls == 1 && g_AngNormalize_arg == lon))
/*@ clause post.length src=property props=C18 */
__CPROVER_ensures(!GARS_OK || gars->len == 5 + GARS_P)
/*@ clause post.alphabet src=property props=C18 */
__CPROVER_ensures(!GARS_OK || (GARS_ISDIGIT(gars->p[0]) && GARS_ISDIGIT(gars->p[1]) && GARS_ISDIGIT(gars->p[2]) &&
   GARS_ISLETTER(gars->p[3]) && GARS_ISLETTER(gars->p[4])))
/*@ clause post.scaled_input src=standard props=C18 */
__CPROVER_ensures(!GARS_OK || (cap_lon == GARS_LONF && cap_lat == GARS_LATF))
/*@ clause post.scaled src=standard props=C18 */
__CPROVER_ensures(!GARS_OK || (cap_x == (int)floor(cap_lon * 12.0) + 2160 && cap_y == (int)floor(cap_lat * 12.0) + 1080))
/*@ clause post.scaled_range src=standard props=C18 */
__CPROVER_ensures(!GARS_OK || (0 <= cap_x && cap_x < 4320 && 0 <= cap_y && cap_y < 2160))
/*@ clause post.lonband src=standard props=C18 */
__CPROVER_ensures(!GARS_OK || (1 <= GARS_B && GARS_B <= 720 && 6 * (GARS_B - 1) <= GARS_I && GARS_I < 6 * GARS_B))
/*@ clause post.latband src=standard props=C18 */
__CPROVER_ensures(!GARS_OK || !GARS_LMATCH || (GARS_L < 360 && 6 * GARS_L <= GARS_J && GARS_J < 6 * (GARS_L + 1)))
/*@ clause post.quadrant src=standard props=C18 */
__CPROVER_ensures(!GARS_OK || GARS_P < 1 || !GARS_LMATCH ||
   (gars->p[5] >= '1' && gars->p[5] <= '4' &&
    3 * ((gars->p[5] - '1') % 2) <= GARS_I - 6 * (GARS_B - 1) && GARS_I - 6 * (GARS_B - 1) < 3 * ((gars->p[5] - '1') % 2) + 3 &&
    3 * (1 - (gars->p[5] - '1') / 2) <= GARS_J - 6 * GARS_L && GARS_J - 6 * GARS_L < 3 * (1 - (gars->p[5] - '1') / 2) + 3))
/*@ clause post.keypad src=standard props=C18 */
__CPROVER_ensures(!GARS_OK || GARS_P < 2 || !GARS_LMATCH ||
   (gars->p[6] >= '1' && gars->p[6] <= '9' &&
    GARS_I - 6 * (GARS_B - 1) - 3 * ((gars->p[5] - '1') % 2) == (gars->p[6] - '1') % 3 &&
    GARS_J - 6 * GARS_L - 3 * (1 - (gars->p[5] - '1') / 2) == 2 - (gars->p[6] - '1') / 3))
/*@ clause post.terminated src=model */
__CPROVER_ensures(verif_thrown || gars->p[gars->len] == 0)
