/* ASSUMED contract of  Math::real GeodesicExact::GenDirect(real lat1, real lon1, real azi1, bool arcmode, real s12_a12, unsigned outmask,
 *      real& lat2, real& lon2, real& azi2, real& s12, real& m12, real& M12, real& M21, real& S12) const   (the exact solver: another class;
 * body not verified here).  Frame: only the requested outputs. */
/*@ clause frame src=assumed */
__CPROVER_requires(1)
__CPROVER_assigns((outmask & 0xFF80U & Geodesic_LATITUDE) != 0U: *lat2; (outmask & 0xFF80U & Geodesic_LONGITUDE) != 0U: *lon2; (outmask & 0xFF80U & Geodesic_AZIMUTH) != 0U: *azi2;
                  (outmask & 0xFF80U & Geodesic_DISTANCE) != 0U: *s12; (outmask & 0xFF80U & Geodesic_REDUCEDLENGTH) != 0U: *m12;
                  (outmask & 0xFF80U & Geodesic_GEODESICSCALE) != 0U: *M12; (outmask & 0xFF80U & Geodesic_GEODESICSCALE) != 0U: *M21; (outmask & 0xFF80U & Geodesic_AREA) != 0U: *S12)
__CPROVER_ensures(1)
