/* Contract of  template<typename T> static T Math::LatFix(T x)   (Math.hpp, inline).  Source: C16 "latitude fixing". */
/*@ clause frame src=property props=C14 */
__CPROVER_assigns()
/*@ clause post.value src=header props=C16 */
__CPROVER_ensures(fabs(x) > 90.0 ? isnan(__CPROVER_return_value) : VERIF_SAME_D(__CPROVER_return_value, x))
