/* ASSUMED contract of  void Geoid::filepos(int ix, int iy) const  (Geoid.hpp: seekg on the data file).
 * Its precondition is what makes the read land inside the raster: column and row inside the grid.  CHECKED at the call site in rawval. */
/*@ clause pre.inside_raster src=format */
__CPROVER_requires(0 <= ix && ix < self->_width && 0 <= iy && iy < self->_height)
/*@ clause frame src=assumed */
__CPROVER_assigns(g_geoid_file_ix, g_geoid_file_iy)
/*@ clause post.position src=ghost */
__CPROVER_ensures(g_geoid_file_ix == ix && g_geoid_file_iy == iy)
/*@ ghost */
int g_geoid_file_ix, g_geoid_file_iy;   /* ghost: where the file position points (column, row) */
