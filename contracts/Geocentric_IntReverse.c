/* Contract of  void Geocentric::IntReverse(real X, real Y, real Z, real& lat, real& lon, real& h, real M[dim2_]) const
 * Source: C07 "converting any finite (X, Y, Z) ... gives a latitude, longitude and height ... with |lat| <= 90, lon in [-180,180]";
 * C13 (NaN gives NaN, no exception; the optional matrix pointer is dereferenced only when given); C14 (const: no member written).
 * sqrt, cbrt, hypot, atan2, cos are the range-only models: the |lat| <= 90 clause is sign reasoning (cos(phi) is a non-negative
 * quantity divided by a positive one), not accuracy. */
/*@ ghost */
#define GR_FINITE (!isnan(X) && !isnan(Y) && !isnan(Z) && !isinf(X) && !isinf(Y) && !isinf(Z))
/*@ clause pre.ellipsoid src=constructor */
/* the constructor's postcondition (Geocentric_Geocentric.c proves the sign facts, e2 == f(2-f) and e2a == |e2|); the two
   squares e2m == (1-f)^2 and e4a == e2^2 are read off its initialiser list and ASSUMED here (re-proving them means proving two
   multiplier circuits equal, which the SAT back end does not finish) */
__CPROVER_requires(self->_a > 0.0 && !isinf(self->_a) && self->_f < 1.0 && !isinf(self->_f) &&
                   self->_e2 == self->_f * (2 - self->_f) && self->_e2m > 0.0 && self->_e2m == (1 - self->_f) * (1 - self->_f) &&
                   self->_e2a == fabs(self->_e2) && self->_e4a == self->_e2 * self->_e2 && self->_maxrad > 0.0 && !isnan(self->_maxrad))
/*@ clause pre.matrix src=call-site */
__CPROVER_requires(M == (double *)0 || __CPROVER_rw_ok(M, 9 * sizeof(double)))
/*@ clause frame src=property props=C14,C13 */
__CPROVER_assigns(*lat, *lon, *h; M != (double *)0: __CPROVER_object_upto(M, 9 * sizeof(double)))
/*@ clause post.lon_range src=property props=C07 */
__CPROVER_ensures(isnan(*lon) || (-180.0 <= *lon && *lon <= 180.0))
/*@ clause post.lat_range src=property props=C07 */
__CPROVER_ensures(isnan(*lat) || (-90.0 <= *lat && *lat <= 90.0))
/* Not stated: "a finite input gives numbers, not NaN".  Tried: with the range-only models of sqrt/cbrt/hypot and an arbitrary admissible
   ellipsoid (f down to -1e308) the verifier produces NaNs from overflow in e2 = f(2-f); excluding those needs accuracy facts about cbrt and
   sqrt ("uv is positive") that the libm models do not provide.  The seeded change C07-intreverse-singular-rim (0/0 on the rim of the singular
   disc) is therefore NOT detected: see DESIGN.md. */
