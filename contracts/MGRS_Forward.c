/* Contract of  void MGRS::Forward(int zone, bool northp, real x, real y, real lat, int prec, std::string& mgrs)
 * (the overload that is given the latitude).  Oracle: MGRS as documented in MGRS.hpp / NGA.SIG.0012: grid zone =
 * zone number (2 digits) + latitude band letter (C..X without I,O; bands of 8 degrees from 80S) or, for UPS, A/B
 * (south, west/east) or Y/Z (north); 100 km column letter from the zone-set alphabets ABCDEFGH / JKLMNPQR / STUVWXYZ
 * (set = (zone-1) mod 3), row letter from ABCDEFGHJKLMNPQRSTUV with period 2000 km, shifted by 5 letters in
 * even-numbered zones; then prec digits of easting and prec digits of northing.  -- C05, C13 */
/*@ ghost */
static const char mf_latband[] = "CDEFGHJKLMNPQRSTUVWX";
static const char mf_utmrow[] = "ABCDEFGHJKLMNPQRSTUV";
static const char mf_utmcols[3][9] = { "ABCDEFGH", "JKLMNPQR", "STUVWXYZ" };
static const char mf_upscols[4][13] = { "JKLPQRSTUXYZ", "ABCFGHJKLPQR", "RSTUXYZ", "ABCFGHJ" };
static const char mf_upsrows[2][25] = { "ABCDEFGHJKLMNPQRSTUVWXYZ", "ABCDEFGHJKLMNP" };
#define MF_INVALID (zone == -4 || isnan(x) || isnan(y) || isnan(lat))
#define MF_OK (!verif_thrown && !MF_INVALID)
#define MF_UTM (zone != 0)
#define MF_Z (MF_UTM ? 2 : 0)
#define MF_IS24(c) ((c) >= 'A' && (c) <= 'Z' && (c) != 'I' && (c) != 'O')
/*@ clause pre.string src=call-site */
__CPROVER_requires(verif_thrown == 0 && mgrs->len >= 0 && mgrs->len < VERIF_STRCAP && __CPROVER_rw_ok(mgrs->p, VERIF_STRCAP))
/*@ clause frame src=property props=C13,C14 */
__CPROVER_assigns(mgrs->len, __CPROVER_object_whole(mgrs->p), verif_thrown)
/*@ clause post.no_other_exception src=property props=C13 */
__CPROVER_ensures(!verif_thrown_other)
/*@ clause post.throw_unchanged src=property props=C13 */
__CPROVER_ensures(!verif_thrown || (mgrs->len == __CPROVER_old(mgrs->len) &&
   mgrs->p[verif_ghost_idx % VERIF_STRCAP] == __CPROVER_old(mgrs->p[verif_ghost_idx % VERIF_STRCAP])))
/*@ clause post.invalid src=property props=C13,C05 */
__CPROVER_ensures(!MF_INVALID || (!verif_thrown && mgrs->len == 7 && mgrs->p[0] == 'I' && mgrs->p[1] == 'N' && mgrs->p[2] == 'V' &&
    mgrs->p[3] == 'A' && mgrs->p[4] == 'L' && mgrs->p[5] == 'I' && mgrs->p[6] == 'D'))
/*@ clause post.throws_bad_args src=property props=C13,C05 */
__CPROVER_ensures(MF_INVALID || !(zone < 0 || zone > 60 || prec < -1 || prec > 11) || verif_thrown)
/*@ clause post.length src=property props=C05 */
__CPROVER_ensures(!MF_OK || mgrs->len == MF_Z + 3 + 2 * prec)
/*@ clause post.zone_digits src=standard props=C05 */
__CPROVER_ensures(!MF_OK || !MF_UTM || (mgrs->p[0] == '0' + zone / 10 && mgrs->p[1] == '0' + zone % 10))
/*@ clause post.band_letter src=standard props=C05 */
__CPROVER_ensures(!MF_OK || !MF_UTM || !(verif_ghost_idx < 20) || mgrs->p[2] != mf_latband[verif_ghost_idx] ||
   ((verif_ghost_idx == 0 || 8.0 * ((double)verif_ghost_idx - 10.0) <= lat || (verif_ghost_idx == 10 && lat > -1e-10)) &&
    (verif_ghost_idx == 19 || lat < 8.0 * ((double)verif_ghost_idx - 9.0) || (verif_ghost_idx == 9 && lat < 1e-10))))
/*@ clause post.band_alphabet src=property props=C05 */
__CPROVER_ensures(!MF_OK || (MF_UTM ? (mgrs->p[2] >= 'C' && mgrs->p[2] <= 'X' && MF_IS24(mgrs->p[2]))
                                    : (mgrs->p[0] == (northp ? (x >= 2000000.0 ? 'Z' : 'Y') : (x >= 2000000.0 ? 'B' : 'A')))))
/*@ clause post.column_letter src=standard props=C05 */
__CPROVER_ensures(!MF_OK || !MF_UTM || prec < 0 || !(verif_ghost_idx2 < 8) || mgrs->p[3] != mf_utmcols[(zone - 1) % 3][verif_ghost_idx2] ||
   (100000.0 * (double)(verif_ghost_idx2 + 1) <= x && x <= 100000.0 * (double)(verif_ghost_idx2 + 2)))
/*@ clause post.block_alphabet src=property props=C05 */
__CPROVER_ensures(!MF_OK || prec < 0 || (MF_IS24(mgrs->p[MF_Z + 1]) && MF_IS24(mgrs->p[MF_Z + 2])))
/*@ clause post.row_letter src=standard props=C05 */
/* for every 2000 km period n and row j of it: if y lies in that 100 km row then the row letter is letter number
   (j + 5 * [zone even]) mod 20 of the row alphabet.  (The three northings that sit exactly on an excluded upper end and
   are nudged down by CheckCoords are left out.) */
/* MF_YF is the northing in the convention of the hemisphere it lies in: y itself, or y +- 10000 km when it was given
   in the other hemisphere's convention (that addition rounds once: stated, not proved exact) */
#define MF_YF (northp ? (y < 0.0 ? y + 10000000.0 : y) : (y > 10000000.0 ? y - 10000000.0 : y))
__CPROVER_ensures(!MF_OK || !MF_UTM || prec < 0 || !(verif_ghost_idx3 < 20) || !(verif_ghost_int >= -5 && verif_ghost_int <= 9) ||
   !(2000000.0 * verif_ghost_int + 100000.0 * (double)verif_ghost_idx3 <= MF_YF && MF_YF < 2000000.0 * verif_ghost_int + 100000.0 * (double)(verif_ghost_idx3 + 1)) ||
   y == 9500000.0 || y == 19500000.0 || MF_YF == 10000000.0 ||
   mgrs->p[4] == mf_utmrow[(verif_ghost_idx3 + ((zone - 1) % 2 ? 5 : 0)) % 20])
/*@ clause post.ups_letters src=standard props=C05 */
__CPROVER_ensures(!MF_OK || MF_UTM || prec < 0 || !(verif_ghost_idx2 < 12 && verif_ghost_idx3 < 24) ||
   ((mgrs->p[1] != mf_upscols[(northp ? 2 : 0) + (x >= 2000000.0 ? 1 : 0)][verif_ghost_idx2] ||
     ((x >= 2000000.0 ? 2000000.0 : northp ? 1300000.0 : 800000.0) + 100000.0 * (double)verif_ghost_idx2 <= x &&
      x <= (x >= 2000000.0 ? 2000000.0 : northp ? 1300000.0 : 800000.0) + 100000.0 * (double)(verif_ghost_idx2 + 1))) &&
    (mgrs->p[2] != mf_upsrows[northp ? 1 : 0][verif_ghost_idx3] ||
     ((northp ? 1300000.0 : 800000.0) + 100000.0 * (double)verif_ghost_idx3 <= y &&
      y <= (northp ? 1300000.0 : 800000.0) + 100000.0 * (double)(verif_ghost_idx3 + 1)))))
/*@ clause post.digits_alphabet src=property props=C05 */
__CPROVER_ensures(!MF_OK || !((size_t)(MF_Z + 3) <= verif_ghost_idx4 && verif_ghost_idx4 < (size_t)mgrs->len) ||
   (mgrs->p[verif_ghost_idx4] >= '0' && mgrs->p[verif_ghost_idx4] <= '9'))
/*@ clause post.terminated src=model */
__CPROVER_ensures(verif_thrown || mgrs->p[mgrs->len] == 0)
