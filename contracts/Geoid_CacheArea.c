/* Contract of  void Geoid::CacheArea(real south, real west, real north, real east) const   (src/Geoid.cpp)
 * Source: C20 "The value is bit-for-bit independent of ... whether no cache, an area cache, the full cache or the thread-safe mode is in use":
 * what the area cache holds must be exactly the raster pixels rawval() will look for in it.  That specification is the PRECONDITION of the
 * read stand-in (geoid_read_pixels.c), checked at both reads of every cached row (loop contract: all rows, no bound); here: the cache
 * rectangle lies where rawval expects it, every row is filled completely, a thread-safe object refuses, nothing else is written.
 * REWRITES (R16): vector resize dropped, readarray -> the read stand-in. */
/*@ uses geoid_read_pixels */
/*@ ghost */
/* for callers (CacheAll): which area was asked for */
unsigned g_CA_calls; double g_CA_south, g_CA_west, g_CA_north, g_CA_east;
/*@ ghost-init */
g_CA_calls = 0;
/*@ ghost */
#define CA_INV (self->_width >= 2 && self->_width % 2 == 0 && self->_width <= 1000000 && self->_height >= 3 && self->_height % 2 == 1 && self->_height <= 1000001 && \
                self->_rlonres == self->_width / 360.0 && self->_rlatres == (self->_height - 1) / 180.0)
/*@ clause pre.invariant src=constructor */
__CPROVER_requires(CA_INV && verif_thrown == 0)
/*@ clause frame src=property props=C14,C20 */
__CPROVER_assigns(verif_thrown, self->_cache, self->_xoffset, self->_yoffset, self->_xsize, self->_ysize, g_geoid_file_ix, g_geoid_file_iy, g_fill_row, g_fill_next)
/*@ clause post.threadsafe_refuses src=property props=C14,C20 */
__CPROVER_ensures(!self->_threadsafe || (verif_thrown && self->_cache == __CPROVER_old(self->_cache) && self->_xoffset == __CPROVER_old(self->_xoffset) &&
                  self->_yoffset == __CPROVER_old(self->_yoffset) && self->_xsize == __CPROVER_old(self->_xsize) && self->_ysize == __CPROVER_old(self->_ysize)))
/*@ clause post.no_other_exception src=property props=C13 */
__CPROVER_ensures(!verif_thrown_other)
/*@ clause post.rectangle src=Geoid.hpp props=C20,C13 */
/* the cached rectangle is where rawval's addressing expects it (compare Geoid_rawval_body.c: pre.cache), at most one row beyond each pole */
__CPROVER_ensures(verif_thrown || !self->_cache ||
   (1 <= self->_xsize && self->_xsize <= self->_width && 0 <= self->_xoffset && self->_xoffset < self->_width &&
    1 <= self->_ysize && self->_ysize <= self->_height + 2 && -1 <= self->_yoffset && self->_yoffset <= self->_height + 1 - self->_ysize))
/*@ clause post.rows_complete src=property props=C20 */
__CPROVER_ensures(verif_thrown || !self->_cache || (g_fill_row == self->_ysize - 1 && g_fill_next == self->_xsize))
/*@ clause frame.ghost src=ghost only=replace */
__CPROVER_assigns(g_CA_calls, g_CA_south, g_CA_west, g_CA_north, g_CA_east)
/*@ clause post.ghost src=ghost only=replace */
__CPROVER_ensures(g_CA_calls == __CPROVER_old(g_CA_calls) + 1 && VERIF_SAME_D(g_CA_south, south) && VERIF_SAME_D(g_CA_west, west) &&
                  VERIF_SAME_D(g_CA_north, north) && VERIF_SAME_D(g_CA_east, east))
/*@ loop 1 rows */
__CPROVER_assigns(iy, g_geoid_file_ix, g_geoid_file_iy, g_fill_row, g_fill_next)
__CPROVER_loop_invariant(in <= iy && iy <= is + 1 && (iy == in ? g_fill_row == -1 : (g_fill_row == iy - 1 - in && g_fill_next == self->_xsize)))
__CPROVER_decreases(is + 1 - iy)
