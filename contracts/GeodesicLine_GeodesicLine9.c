/* Contract of the constructor  GeodesicLine::GeodesicLine(const Geodesic& g, real lat1, real lon1, real azi1, real salp1, real calp1,
 *                                                        unsigned caps, bool arcmode, real s13_a13)       (src/GeodesicLine.cpp)
 * (the form used by DirectLine / ArcDirectLine / InverseLine).  Source: C12 "a line's stored third point (set by distance, by arc ...)
 * reproduces the end point that defined it": the constructor stores the third point through SetDistance / SetArc.
 * Stated for the series path (exact = false), the one SetDistance / SetArc are under contract for. */
/*@ clause pre.solver src=class-invariant */
__CPROVER_requires(!g->_exact && g->_f1 > 0.0 && !isinf(g->_f1) && g->tiny_ > 0.0)
/*@ clause frame src=property */
__CPROVER_assigns(*self)
/*@ clause post.caps src=header props=C12,C01 */
__CPROVER_ensures(self->_caps == (caps | LATITUDE | AZIMUTH | LONG_UNROLL))
/*@ clause post.third_point src=property props=C12 */
__CPROVER_ensures(arcmode ? VERIF_SAME_D(self->_a13, s13_a13) : VERIF_SAME_D(self->_s13, s13_a13))
/*@ clause post.third_point_nan_without_capability src=property props=C12 */
__CPROVER_ensures(arcmode ? ((caps & 0xFF80U & DISTANCE) != 0U || isnan(self->_s13)) : ((caps & 0xFF80U & DISTANCE_IN) != 0U || isnan(self->_a13)))
/*@ clause post.point src=header props=C12,C01 */
__CPROVER_ensures(VERIF_SAME_D(self->_lon1, lon1) && VERIF_SAME_D(self->_azi1, azi1) && VERIF_SAME_D(self->_salp1, salp1) && VERIF_SAME_D(self->_calp1, calp1))
