/* Contract of  Math::real DMS::DecodeAzimuth(const std::string& azistr): N/S hemisphere letters are rejected, E/W accepted
 * (W negates), the result is reduced to [-180, 180] by AngNormalize. -- C10 */
/*@ uses DMS_Decode Math_AngNormalize */
/*@ clause pre.not_thrown src=call-site */
__CPROVER_requires(verif_thrown == 0)
/*@ clause frame src=property props=C13,C14 */
__CPROVER_assigns(verif_thrown, g_Decode_calls, __CPROVER_object_whole(g_Decode_val), __CPROVER_object_whole(g_Decode_ind),
                  g_AngNormalize_arg, g_AngNormalize_ret, g_AngNormalize_calls)
/*@ clause post.no_other_exception src=property props=C13 */
__CPROVER_ensures(!verif_thrown_other)
/*@ clause post.value src=header props=C10 */
__CPROVER_ensures(verif_thrown || (g_Decode_calls == 1 && g_Decode_ind[0] != 1 && g_AngNormalize_calls == 1 &&
                                   VERIF_SAME_D(g_AngNormalize_arg, g_Decode_val[0]) && VERIF_SAME_D(__CPROVER_return_value, g_AngNormalize_ret)))
/*@ clause post.range src=property props=C10 */
__CPROVER_ensures(verif_thrown || isnan(__CPROVER_return_value) || (-180.0 <= __CPROVER_return_value && __CPROVER_return_value <= 180.0))
