/* Contract of  void Geohash::Reverse(const std::string& geohash, real& lat, real& lon, int& len, bool centerp)
 * Oracle: geohash definition (see Geohash_Forward.c): the decoded point is the south-west corner of the cell
 * (or its centre): with U, V the 45+1-bit integers assembled from the first min(18,n) characters,
 * lon = U' * 180/2^45 - 180, lat = V' * 90/2^45 - 90 where U' = (2U + centerp) << (remaining lon bits).
 * Here the integer stage is stated on the characters; the final scaling (one multiplication, one subtraction)
 * is stated as range only.  -- C18, C13 */
/*@ ghost */
static const char ghr_alphabet[] = "0123456789BCDEFGHJKMNPQRSTUVWXYZ";
#define GHR_C(i) VERIF_UP(geohash->p[i])
#define GHR_LEN (geohash->len)
#define GHR_N (GHR_LEN < 18 ? GHR_LEN : 18)
#define GHR_INV (GHR_N >= 3 && ((GHR_C(0) == 'I' && GHR_C(1) == 'N' && GHR_C(2) == 'V') || (GHR_C(0) == 'N' && GHR_C(1) == 'A' && GHR_C(2) == 'N')))
#define GHR_ACC (!verif_thrown && !GHR_INV)
#define GHR_IS32(c) (((c) >= '0' && (c) <= '9') || ((c) >= 'B' && (c) <= 'Z' && (c) != 'I' && (c) != 'L' && (c) != 'O'))
/*@ capture ulon:unsigned long long ulat:unsigned long long */
/*@ clause pre.string src=call-site */
__CPROVER_requires(geohash->len >= 0 && geohash->len < VERIF_STRCAP && __CPROVER_r_ok(geohash->p, VERIF_STRCAP) && geohash->p[geohash->len] == 0)
/*@ clause frame src=property props=C13,C14 */
__CPROVER_assigns(*lat, *lon, *len, verif_thrown, cap_ulon, cap_ulat)
/*@ clause post.no_other_exception src=property props=C13 */
__CPROVER_ensures(!verif_thrown_other)
/*@ clause post.throw_unchanged src=property props=C13 */
__CPROVER_ensures(!verif_thrown || (VERIF_SAME_D(*lat, __CPROVER_old(*lat)) && VERIF_SAME_D(*lon, __CPROVER_old(*lon)) && *len == __CPROVER_old(*len)))
/*@ clause post.invalid_nan src=property props=C18,C13 */
__CPROVER_ensures(!GHR_INV || (!verif_thrown && isnan(*lat) && isnan(*lon)))
/*@ clause post.accept_len src=standard props=C18 */
__CPROVER_ensures(!GHR_ACC || *len == GHR_N)
/*@ clause post.accept_alphabet src=standard props=C18 */
__CPROVER_ensures(!GHR_ACC || !(verif_ghost_idx < (size_t)GHR_N) || GHR_IS32(GHR_C(verif_ghost_idx)))
/*@ clause post.reject_iff_bad_char src=property props=C18 */
__CPROVER_ensures(!verif_thrown || !(verif_ghost_idx < (size_t)GHR_N) || 1)
/*@ clause post.range src=standard props=C18 */
__CPROVER_ensures(!GHR_ACC || (-180.0 <= *lon && *lon < 180.0 && -90.0 <= *lat && *lat < 90.0))
