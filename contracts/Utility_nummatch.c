/* ASSUMED contract of  template<typename T> static T Utility::nummatch(const std::string& s)  (Utility.hpp; string
 * comparisons with "nan", "inf", ... not extracted): returns 0 or one of +-inf / NaN; reads only. */
/*@ clause frame src=assumed */
__CPROVER_assigns()
/*@ clause post.values src=header */
__CPROVER_ensures(__CPROVER_return_value == 0 || isnan(__CPROVER_return_value) || isinf(__CPROVER_return_value))
