/* Contract of  static void MGRS::CheckCoords(bool utmp, bool& northp, real& x, real& y)   (src/MGRS.cpp)
 * Oracle: the documented MGRS coordinate ranges (MGRS.hpp): UTM easting [100 km, 900 km), northing
 * [-9000 km, 9500 km) in the northern and [1000 km, 19500 km) in the southern hemisphere; UPS
 * [1300 km, 2700 km) north and [800 km, 3200 km) south; a coordinate exactly on the excluded upper end is
 * accepted and nudged down; UTM northings are folded into the hemisphere they belong to.  -- C05 */
/*@ ghost */
#define CC_XMIN(u, n) ((u) ? 100000.0 : (n) ? 1300000.0 : 800000.0)
#define CC_XMAX(u, n) ((u) ? 900000.0 : (n) ? 2700000.0 : 3200000.0)
#define CC_YMIN(u, n) ((u) ? ((n) ? -9000000.0 : 1000000.0) : (n) ? 1300000.0 : 800000.0)
#define CC_YMAX(u, n) ((u) ? ((n) ? 9500000.0 : 19500000.0) : (n) ? 2700000.0 : 3200000.0)
#define CC_OLDN __CPROVER_old(*northp)
#define CC_OLDX __CPROVER_old(*x)
#define CC_OLDY __CPROVER_old(*y)
#define CC_INRANGE (CC_XMIN(utmp, CC_OLDN) <= CC_OLDX && CC_OLDX <= CC_XMAX(utmp, CC_OLDN) && \
                    CC_YMIN(utmp, CC_OLDN) <= CC_OLDY && CC_OLDY <= CC_YMAX(utmp, CC_OLDN))
/*@ clause pre.finite src=call-site */
__CPROVER_requires(verif_thrown == 0 && !isnan(*x) && !isnan(*y))
/*@ clause frame src=property props=C13,C14 */
__CPROVER_assigns(*northp, *x, *y, verif_thrown)
/*@ clause post.no_other_exception src=property props=C13 */
__CPROVER_ensures(!verif_thrown_other)
/*@ clause post.throw_iff src=header props=C05,C13 */
__CPROVER_ensures((verif_thrown != 0) == !CC_INRANGE)
/* no "unchanged on throw" clause: this is a private helper; its reference arguments are by-value copies in the only
   caller (MGRS::Forward), so the nudge of x before a failing northing test is not observable (checked at MGRS::Forward). */
/*@ clause post.easting src=header props=C05 */
__CPROVER_ensures(verif_thrown || (CC_XMIN(utmp, CC_OLDN) <= *x && *x < CC_XMAX(utmp, CC_OLDN) &&
                                   (*x == CC_OLDX || (CC_OLDX == CC_XMAX(utmp, CC_OLDN) && *x > CC_OLDX - 1e-8))))
/*@ clause post.ups_northing src=header props=C05 */
__CPROVER_ensures(verif_thrown || utmp || (*northp == CC_OLDN && CC_YMIN(0, CC_OLDN) <= *y && *y < CC_YMAX(0, CC_OLDN) &&
                                           (*y == CC_OLDY || (CC_OLDY == CC_YMAX(0, CC_OLDN) && *y > CC_OLDY - 1e-8))))
/*@ clause post.utm_fold src=header props=C05 */
__CPROVER_ensures(verif_thrown || !utmp ||
                  (*northp ? (0.0 <= *y && *y < 9500000.0) : (1000000.0 <= *y && *y < 10000000.0)))
/*@ clause post.utm_fold_value src=header props=C05 */
__CPROVER_ensures(verif_thrown || !utmp ||
                  (*northp == CC_OLDN ? (*y == CC_OLDY || ((CC_OLDY == CC_YMAX(1, CC_OLDN) || CC_OLDY == 10000000.0) && *y > CC_OLDY - 1e-8 && *y < CC_OLDY))
                                      : (*northp ? (*y == CC_OLDY - 10000000.0 || (CC_OLDY == 19500000.0 && *y < 9500000.0 && *y > 9500000.0 - 1e-8))
                                                 : (*y == CC_OLDY + 10000000.0 || (CC_OLDY + 10000000.0 == 10000000.0 && *y < 10000000.0 && *y > 10000000.0 - 1e-8)))))
/*@ clause post.utm_fold_iff src=header props=C05 */
__CPROVER_ensures(verif_thrown || !utmp || ((*northp != CC_OLDN) == (CC_OLDN ? CC_OLDY < 0.0 : CC_OLDY > 10000000.0)))
