/* ASSUMED contract of  static real Geodesic::SinCosSeries(bool sinp, real sinx, real cosx, const real c[], int n)
 * (Clenshaw summation: numeric, body not verified here).  Reads c[0 .. n] (sinp) or c[0 .. n-1]; writes nothing. */
/*@ clause pre.table src=call-site */
__CPROVER_requires(n >= 0 && __CPROVER_r_ok(c, (size_t)(n + (sinp ? 1 : 0)) * sizeof(double)))
/*@ clause frame src=assumed */
__CPROVER_assigns()
