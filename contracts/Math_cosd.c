/* Contract of  template<typename T> T Math::cosd(T x)   (src/Math.cpp).  Source and conventions: see Math_sincosd.c.  -- C16 */
/*@ capture d:double */
/*@ ghost */
#define CD_K ((int)(vm_last_k & 3))
#define CD_EXACT (fabs(x) < 4503599627370496.0)
#define CD_R __CPROVER_return_value
/*@ clause frame src=property props=C14 only=enforce */
__CPROVER_assigns(vm_last_k, cap_d)
/*@ clause frame.caller src=property only=replace */
/* the ghost variables of the model / captures are not part of what a caller sees */
__CPROVER_assigns()
/*@ clause post.nan src=property props=C13,C16 */
__CPROVER_ensures(isnan(CD_R) == (isnan(x) || isinf(x)))
/*@ clause post.range src=property props=C16 */
__CPROVER_ensures(isnan(CD_R) || (-1.0 <= CD_R && CD_R <= 1.0))
/*@ clause post.multiples_of_90 src=property props=C16 only=enforce */
__CPROVER_ensures(!CD_EXACT || cap_d != 0 || (CD_R == (CD_K == 0 ? 1.0 : CD_K == 1 ? 0.0 : CD_K == 2 ? -1.0 : 0.0)))
/*@ clause post.zero_sign src=standard props=C16 */
__CPROVER_ensures(isnan(CD_R) || CD_R != 0 || !signbit(CD_R))
/*@ clause post.multiples_of_45 src=property props=C16 only=enforce */
__CPROVER_ensures(!CD_EXACT || fabs(cap_d) != 45.0 || fabs(CD_R) == 0x1.6a09e667f3bcdp-1)
/*@ clause post.multiples_of_30 src=property props=C16 only=enforce */
__CPROVER_ensures(!CD_EXACT || fabs(cap_d) != 30.0 || fabs(CD_R) == ((CD_K & 1) == 0 ? 0x1.bb67ae8584caap-1 : 0.5))
/*@ clause post.quadrant_sign src=property props=C16 only=enforce */
__CPROVER_ensures(!CD_EXACT || cap_d == 0 ||
   (CD_K == 0 ? CD_R > 0 : CD_K == 1 ? (cap_d > 0 ? CD_R <= 0 : CD_R >= 0) : CD_K == 2 ? CD_R < 0 : (cap_d > 0 ? CD_R >= 0 : CD_R <= 0)))
