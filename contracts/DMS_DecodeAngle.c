/* Contract of  Math::real DMS::DecodeAngle(const std::string& angstr): a hemisphere letter is rejected. -- C10 */
/*@ uses DMS_Decode */
/*@ clause pre.not_thrown src=call-site */
__CPROVER_requires(verif_thrown == 0)
/*@ clause frame src=property props=C13,C14 */
__CPROVER_assigns(verif_thrown, g_Decode_calls, __CPROVER_object_whole(g_Decode_val), __CPROVER_object_whole(g_Decode_ind))
/*@ clause post.no_other_exception src=property props=C13 */
__CPROVER_ensures(!verif_thrown_other)
/*@ clause post.value src=header props=C10 */
__CPROVER_ensures(verif_thrown || (g_Decode_calls == 1 && g_Decode_ind[0] == 0 && VERIF_SAME_D(__CPROVER_return_value, g_Decode_val[0])))
