/* ASSUMED contract of  void PolarStereographic::Reverse(bool northp, real x, real y, real& lat, real& lon, real& gamma, real& k) const
 * for the UPS singleton (body not verified: numeric). */
/*@ ghost */
double g_PSR_x, g_PSR_y, g_PSR_lat, g_PSR_lon, g_PSR_gamma, g_PSR_k; unsigned g_PSR_calls; _Bool g_PSR_northp;
/*@ ghost-init */
g_PSR_calls = 0;
/*@ clause frame src=assumed */
__CPROVER_assigns(*lat, *lon, *gamma, *k, g_PSR_x, g_PSR_y, g_PSR_lat, g_PSR_lon, g_PSR_gamma, g_PSR_k, g_PSR_calls, g_PSR_northp)
/*@ clause post.ghost src=ghost */
__CPROVER_ensures(g_PSR_calls == __CPROVER_old(g_PSR_calls) + 1 && g_PSR_northp == northp && VERIF_SAME_D(g_PSR_x, x) && VERIF_SAME_D(g_PSR_y, y) &&
                  VERIF_SAME_D(g_PSR_lat, *lat) && VERIF_SAME_D(g_PSR_lon, *lon) && VERIF_SAME_D(g_PSR_gamma, *gamma) && VERIF_SAME_D(g_PSR_k, *k))
