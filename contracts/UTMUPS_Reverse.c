/* Contract of  void UTMUPS::Reverse(int zone, bool northp, real x, real y, real& lat, real& lon, real& gamma, real& k, bool mgrslimits)
 * Oracle: UTM/UPS standard (false origins, central meridians) and the documented ranges.  -- C04, C13 */
/*@ uses TransverseMercator_Reverse PolarStereographic_Reverse */
/*@ ghost */
#define UR_SL (mgrslimits ? 0.0 : 100000.0)
#define UR_BADXY (x < (zone != 0 ? 100000.0 : northp ? 1300000.0 : 800000.0) - UR_SL || x > (zone != 0 ? 900000.0 : northp ? 2700000.0 : 3200000.0) + UR_SL || \
                  y < (zone != 0 ? (northp ? -9000000.0 : 1000000.0) : northp ? 1300000.0 : 800000.0) - UR_SL || \
                  y > (zone != 0 ? (northp ? 9500000.0 : 19500000.0) : northp ? 2700000.0 : 3200000.0) + UR_SL)
#define UR_INV (zone == -4 || isnan(x) || isnan(y))
/*@ clause pre.not_thrown src=call-site */
__CPROVER_requires(verif_thrown == 0)
/*@ clause frame src=property props=C13,C14 */
__CPROVER_assigns(*lat, *lon, *gamma, *k, verif_thrown,
                  g_TMR_lon0, g_TMR_x, g_TMR_y, g_TMR_lat, g_TMR_lon, g_TMR_gamma, g_TMR_k, g_TMR_calls,
                  g_PSR_x, g_PSR_y, g_PSR_lat, g_PSR_lon, g_PSR_gamma, g_PSR_k, g_PSR_calls, g_PSR_northp)
/*@ clause post.no_other_exception src=property props=C13 */
__CPROVER_ensures(!verif_thrown_other)
/*@ clause post.throw_iff src=header props=C04,C13 */
__CPROVER_ensures((verif_thrown != 0) == (!UR_INV && (zone < 0 || zone > 60 || UR_BADXY)))
/*@ clause post.throw_unchanged src=property props=C04,C13 */
__CPROVER_ensures(!verif_thrown || (VERIF_SAME_D(*lat, __CPROVER_old(*lat)) && VERIF_SAME_D(*lon, __CPROVER_old(*lon)) &&
                                    VERIF_SAME_D(*gamma, __CPROVER_old(*gamma)) && VERIF_SAME_D(*k, __CPROVER_old(*k))))
/*@ clause post.invalid_nan src=property props=C04,C13 */
__CPROVER_ensures(!UR_INV || (isnan(*lat) && isnan(*lon) && isnan(*gamma) && isnan(*k)))
/*@ clause post.utm src=standard props=C04 */
__CPROVER_ensures(verif_thrown || UR_INV || zone == 0 ||
                  (g_TMR_calls == 1 && g_PSR_calls == 0 && g_TMR_lon0 == 6.0 * zone - 183.0 && g_TMR_x == x - 500000.0 &&
                   g_TMR_y == y - (northp ? 0.0 : 10000000.0) &&
                   VERIF_SAME_D(*lat, g_TMR_lat) && VERIF_SAME_D(*lon, g_TMR_lon) && VERIF_SAME_D(*gamma, g_TMR_gamma) && VERIF_SAME_D(*k, g_TMR_k)))
/*@ clause post.ups src=standard props=C04 */
__CPROVER_ensures(verif_thrown || UR_INV || zone != 0 ||
                  (g_PSR_calls == 1 && g_TMR_calls == 0 && g_PSR_northp == northp && g_PSR_x == x - 2000000.0 && g_PSR_y == y - 2000000.0 &&
                   VERIF_SAME_D(*lat, g_PSR_lat) && VERIF_SAME_D(*lon, g_PSR_lon) && VERIF_SAME_D(*gamma, g_PSR_gamma) && VERIF_SAME_D(*k, g_PSR_k)))
