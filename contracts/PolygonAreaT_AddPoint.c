/* Contract of  void PolygonAreaT<Geodesic>::AddPoint(real lat, real lon)   (src/PolygonArea.cpp)
 * Source: C08 "for every edit history": the state after adding a vertex is the state before plus exactly one edge -- the geodesic from
 * the previous vertex to the new one (asked of the inverse solver with the object's mask), its length added to the perimeter sum, its
 * area term added to the area sum and its prime-meridian crossing count added to the crossing count (polygons only); the first vertex
 * is remembered as both start and current point and adds no edge.
 * REWRITES (rule R16, with the operator definitions in Accumulator.hpp checked to be unchanged): `acc += y` -> Accumulator::Add(y). */
/*@ uses PolygonArea_common */
/*@ ghost */
#define PA_OLD_NUM __CPROVER_old(self->_num)
/*@ clause pre.size src=assumed-bound */
/* fewer than 10^9 vertices: the crossing count cannot overflow (it changes by at most 1 per edge) */
__CPROVER_requires(-1000000000 < self->_crossings && self->_crossings < 1000000000)
/*@ clause frame src=property props=C08 */
__CPROVER_assigns(self->_num, self->_crossings, self->_areasum, self->_perimetersum, self->_lat0, self->_lon0, self->_lat1, self->_lon1,
                  g_GI_calls, __CPROVER_object_whole(g_GI_lat1), __CPROVER_object_whole(g_GI_lon1), __CPROVER_object_whole(g_GI_lat2), __CPROVER_object_whole(g_GI_lon2),
                  __CPROVER_object_whole(g_GI_s12), __CPROVER_object_whole(g_GI_S12), __CPROVER_object_whole(g_GI_mask),
                  g_Acc_calls, __CPROVER_object_whole(g_Acc_obj), __CPROVER_object_whole(g_Acc_y))
/*@ clause post.count src=property props=C08 */
__CPROVER_ensures(self->_num == PA_OLD_NUM + 1)
/*@ clause post.current_point src=property props=C08 */
__CPROVER_ensures(VERIF_SAME_D(self->_lat1, lat) && VERIF_SAME_D(self->_lon1, lon))
/*@ clause post.first_vertex src=property props=C08 */
__CPROVER_ensures(PA_OLD_NUM != 0 ||
   (VERIF_SAME_D(self->_lat0, lat) && VERIF_SAME_D(self->_lon0, lon) && g_GI_calls == 0 && g_Acc_calls == 0 && self->_crossings == __CPROVER_old(self->_crossings) &&
    VERIF_SAME_D(self->_areasum._s, __CPROVER_old(self->_areasum._s)) && VERIF_SAME_D(self->_areasum._t, __CPROVER_old(self->_areasum._t)) &&
    VERIF_SAME_D(self->_perimetersum._s, __CPROVER_old(self->_perimetersum._s)) && VERIF_SAME_D(self->_perimetersum._t, __CPROVER_old(self->_perimetersum._t))))
/*@ clause post.start_kept src=property props=C08 */
__CPROVER_ensures(PA_OLD_NUM == 0 || (VERIF_SAME_D(self->_lat0, __CPROVER_old(self->_lat0)) && VERIF_SAME_D(self->_lon0, __CPROVER_old(self->_lon0))))
/*@ clause post.one_edge src=property props=C08 */
__CPROVER_ensures(PA_OLD_NUM == 0 ||
   (g_GI_calls == 1 && VERIF_SAME_D(g_GI_lat1[0], __CPROVER_old(self->_lat1)) && VERIF_SAME_D(g_GI_lon1[0], __CPROVER_old(self->_lon1)) &&
    VERIF_SAME_D(g_GI_lat2[0], lat) && VERIF_SAME_D(g_GI_lon2[0], lon) && g_GI_mask[0] == self->_mask))
/*@ clause post.perimeter_term src=property props=C08 */
__CPROVER_ensures(PA_OLD_NUM == 0 || (g_Acc_calls == (self->_polyline ? 1U : 2U) && g_Acc_obj[0] == (const void *)&self->_perimetersum))
/*@ clause post.perimeter_value src=property props=C08 */
__CPROVER_ensures(PA_OLD_NUM == 0 || VERIF_SAME_D(g_Acc_y[0], g_GI_s12[0]))
/*@ clause post.area_and_crossings src=property props=C08 */
__CPROVER_ensures(PA_OLD_NUM == 0 ||
   (self->_polyline ? (self->_crossings == __CPROVER_old(self->_crossings) &&
                       VERIF_SAME_D(self->_areasum._s, __CPROVER_old(self->_areasum._s)) && VERIF_SAME_D(self->_areasum._t, __CPROVER_old(self->_areasum._t)))
                    : (g_Acc_obj[1] == (const void *)&self->_areasum && VERIF_SAME_D(g_Acc_y[1], g_GI_S12[0]) &&
                       self->_crossings == __CPROVER_old(self->_crossings) + __CPROVER_uninterpreted_transit(__CPROVER_old(self->_lon1), lon))))
