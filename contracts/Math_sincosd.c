/* Contract of  template<typename T> void Math::sincosd(T x, T& sinx, T& cosx)   (src/Math.cpp)
 * Source: C16 "degree-argument sine, cosine ... correctly rounded at multiples of 30 and 45 degrees"; C99 F.10.1.12/13
 * for the signed zeros.  The reduction x = 90 k + d, |d| <= 45, is exact for |x| < 2^52 (remquo model, k = vm_last_k);
 * sin/cos of the reduced argument are the range-only models, so nothing is claimed about accuracy elsewhere. */
/*@ capture d:double */
/*@ ghost */
#define SC_K ((int)(vm_last_k & 3))                       /* quadrant */
#define SC_D cap_d                                        /* reduced argument d = x - 90 k (ghost capture of the local d, rule R21) */
#define SC_EXACT (fabs(x) < 4503599627370496.0)
#define SC_S (*sinx)
#define SC_C (*cosx)
#define SC_R2 0x1.6a09e667f3bcdp-1                        /* sqrt(1/2) correctly rounded */
#define SC_R3 0x1.bb67ae8584caap-1                        /* sqrt(3)/2 correctly rounded */
/*@ clause frame src=property props=C14 only=enforce */
__CPROVER_assigns(*sinx, *cosx, vm_last_k, cap_d)
/*@ clause frame.caller src=property only=replace */
/* the ghost variables of the model / captures are not part of what a caller sees */
__CPROVER_assigns(*sinx, *cosx)
/*@ clause post.nan src=property props=C13,C16 */
__CPROVER_ensures((isnan(x) || isinf(x)) ? (isnan(SC_S) && isnan(SC_C)) : (!isnan(SC_S) && !isnan(SC_C)))
/*@ clause post.range src=property props=C16 */
__CPROVER_ensures(isnan(x) || isinf(x) || (-1.0 <= SC_S && SC_S <= 1.0 && -1.0 <= SC_C && SC_C <= 1.0))
/*@ clause post.not_both_zero src=property props=C16 */
/* a point of the unit circle: sine and cosine never vanish together (callers divide one by the other: tand) */
__CPROVER_ensures(isnan(x) || isinf(x) || !(SC_S == 0 && SC_C == 0))
/*@ clause post.multiples_of_90 src=property props=C16 only=enforce */
__CPROVER_ensures(!SC_EXACT || SC_D != 0 ||
   (SC_K == 0 ? (SC_S == 0 && SC_C == 1) : SC_K == 1 ? (SC_S == 1 && SC_C == 0) : SC_K == 2 ? (SC_S == 0 && SC_C == -1) : (SC_S == -1 && SC_C == 0)))
/*@ clause post.zero_signs src=standard props=C16 */
__CPROVER_ensures(isnan(x) || isinf(x) || ((SC_C != 0 || !signbit(SC_C)) && (SC_S != 0 || signbit(SC_S) == signbit(x))))
/*@ clause post.multiples_of_45 src=property props=C16 only=enforce */
__CPROVER_ensures(!SC_EXACT || fabs(SC_D) != 45.0 || (fabs(SC_S) == SC_R2 && fabs(SC_C) == SC_R2))
/*@ clause post.multiples_of_30 src=property props=C16 only=enforce */
__CPROVER_ensures(!SC_EXACT || fabs(SC_D) != 30.0 ||
   ((SC_K & 1) == 0 ? (fabs(SC_S) == 0.5 && fabs(SC_C) == SC_R3) : (fabs(SC_S) == SC_R3 && fabs(SC_C) == 0.5)))
/*@ clause post.quadrant_signs src=property props=C16 only=enforce */
/* the signs are those of the quadrant of x (the minor component may underflow to zero for subnormal reduced arguments) */
__CPROVER_ensures(!SC_EXACT || SC_D == 0 ||
   (SC_K == 0 ? (SC_C > 0 && (SC_D > 0 ? SC_S >= 0 : SC_S <= 0)) : SC_K == 1 ? (SC_S > 0 && (SC_D > 0 ? SC_C <= 0 : SC_C >= 0)) :
    SC_K == 2 ? (SC_C < 0 && (SC_D > 0 ? SC_S <= 0 : SC_S >= 0)) : (SC_S < 0 && (SC_D > 0 ? SC_C >= 0 : SC_C <= 0))))
