/* Contract of the constructor  AlbersEqualArea::AlbersEqualArea(real a, real f, real sinlat1, real coslat1, real sinlat2, real coslat2, real k1)
 * (standard parallels given by sine and cosine).  Source: C13 "Constructors reject non-finite or out-of-range ellipsoid, scale or latitude
 * parameters with the library's exception"; AlbersEqualArea.hpp: coslat1, coslat2 non-negative, the pairs usable as sine / cosine, and
 * "the standard latitudes cannot be opposite poles" (stated for exact poles: cos = 0, sin = +-1; pairs with cos = 0 and a sine that is
 * not +-1 are not normalised and are left to the implementation). */
/*@ ghost */
#define AL3_PAIR_OK(s, c) (!signbit(c) && fabs(s) <= 1.0 && (c) <= 1.0 && !((c) == 0.0 && (s) == 0.0))
#define AL3_BASE_OK (isfinite(a) && a > 0.0 && isfinite(f) && f < 1.0 && isfinite(k1) && k1 > 0.0 && AL3_PAIR_OK(sinlat1, coslat1) && AL3_PAIR_OK(sinlat2, coslat2))
/*@ clause pre.not_thrown src=call-site */
__CPROVER_requires(verif_thrown == 0)
/*@ clause frame src=property */
__CPROVER_assigns(*self, verif_thrown)
/*@ clause post.rejects src=property props=C13 */
__CPROVER_ensures(AL3_BASE_OK || verif_thrown)
/*@ clause post.accepts src=property props=C13 */
__CPROVER_ensures(!AL3_BASE_OK || (coslat1 == 0.0 && coslat2 == 0.0) || !verif_thrown)
/*@ clause post.opposite_poles src=header props=C13 */
__CPROVER_ensures(!AL3_BASE_OK || !(coslat1 == 0.0 && coslat2 == 0.0 && fabs(sinlat1) == 1.0 && fabs(sinlat2) == 1.0) ||
                  ((verif_thrown != 0) == (signbit(sinlat1) != signbit(sinlat2))))
/*@ clause post.no_other_exception src=property props=C13 */
__CPROVER_ensures(!verif_thrown_other)
