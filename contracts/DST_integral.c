/* ASSUMED contract of  static real DST::integral(real sinx, real cosx, const real F[], int N)  (Clenshaw sum of the area series: numeric).
 * Reads F[0 .. N-1]; writes nothing. */
/*@ clause pre.table src=call-site */
__CPROVER_requires(N >= 0 && (N == 0 || __CPROVER_r_ok(F, (size_t)N * sizeof(double))))
/*@ clause frame src=assumed */
__CPROVER_assigns()
