/* ASSUMED contract of  real Geoid::rawval(int ix, int iy) const   (Geoid.hpp; reads the raster through std::ifstream or the
 * area cache: iostream and vector<vector<>> are outside the extraction).
 * The raster is the uninterpreted function geoid_pix(ix, iy): rawval is ASSUMED to be a function of its arguments only
 * (that is: its own cache path returns what the file path returns).  Its precondition -- the arguments are at most one
 * column / one row (cubic: two) outside the grid, which is what its wrap-around and pole reflection handle -- is CHECKED
 * at every call site. */
/*@ ghost */
double __CPROVER_uninterpreted_geoid_pix(int, int);
/*@ clause pre.indices src=Geoid.hpp */
__CPROVER_requires(-self->_width <= ix && ix < 2 * self->_width && -(self->_height - 1) <= iy && iy <= 2 * (self->_height - 1))
/*@ clause pre.not_thrown src=call-site */
__CPROVER_requires(verif_thrown == 0)
/*@ clause frame src=assumed */
__CPROVER_assigns(verif_thrown)
/*@ clause post.pixel src=assumed */
__CPROVER_ensures(verif_thrown || __CPROVER_return_value == __CPROVER_uninterpreted_geoid_pix(ix, iy))
/*@ clause post.pixel_range src=Geoid.hpp */
__CPROVER_ensures(verif_thrown || (0.0 <= __CPROVER_return_value && __CPROVER_return_value <= 4294967295.0 && !signbit(__CPROVER_return_value)))
