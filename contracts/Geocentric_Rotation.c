/* Contract of  static void Geocentric::Rotation(real sphi, real cphi, real slam, real clam, real M[dim2_])  (src/Geocentric.cpp)
 * Source: C07 "the optional rotation matrix is the ... east-north-up frame": here only its frame and the entries that are exact
 * copies (orthonormality is numeric). */
/*@ clause pre.matrix src=call-site */
__CPROVER_requires(__CPROVER_rw_ok(M, 9 * sizeof(double)))
/*@ clause frame src=property props=C14,C13 */
__CPROVER_assigns(__CPROVER_object_upto(M, 9 * sizeof(double)))
/*@ clause post.entries src=header props=C07 */
__CPROVER_ensures(VERIF_SAME_D(M[0], -slam) && VERIF_SAME_D(M[3], clam) && M[6] == 0 && VERIF_SAME_D(M[7], cphi) && VERIF_SAME_D(M[8], sphi))
