/* ASSUMED contract of the inline  real AlbersEqualArea::atanhee(real x) const  (numeric; C11 not applicable).  Frame only: writes nothing. */
/*@ clause frame src=assumed */
__CPROVER_requires(1)
__CPROVER_assigns()
__CPROVER_ensures(1)
