/* Contract of the constructor  PolarStereographic::PolarStereographic(real a, real f, real k0)   (src/PolarStereographic.cpp)
 * Source: C13 "Constructors reject non-finite or out-of-range ellipsoid ... parameters with the library's exception". */
/*@ clause pre.not_thrown src=call-site */
__CPROVER_requires(verif_thrown == 0)
/*@ clause frame src=property */
__CPROVER_assigns(self->_a, self->_f, self->_e2, self->_es, self->_e2m, self->_c, self->_k0, verif_thrown)
/*@ clause post.rejects src=property props=C13 */
__CPROVER_ensures((verif_thrown != 0) == !(isfinite(a) && a > 0.0 && isfinite(f) && f < 1.0 && isfinite(k0) && k0 > 0.0))
/*@ clause post.no_other_exception src=property props=C13 */
__CPROVER_ensures(!verif_thrown_other)
/*@ clause post.stores src=constructor props=C13 */
__CPROVER_ensures(verif_thrown || (self->_a == a && self->_f == f && self->_k0 == k0))
