/* Contract of  int SphericalEngine::coeff::index(int n, int m) const   (SphericalEngine.hpp, inline)
 * Source: C19 "the spherical-harmonic sum ... equal the defining series": the term of degree n, order m must be read from the slot
 * that holds C[n,m].  Storage layout (SphericalEngine.hpp): column-major packed triangle for maximum degree N = _Nx: the column of
 * order m holds degrees m..N, so slot(n, m) = sum_{j<m} (N - j + 1) + (n - m); the cosine vector must have at least Csize(N, M) entries
 * for the maximum order M read.  Here: index(n, m) is that slot, it is inside [0, Csize(N, M)) for every m <= M <= N, m <= n <= N, and
 * different (n, m) get different slots (ghost second pair).  N is bounded by 32767 (no known model exceeds 2190; beyond 46340 the
 * arithmetic of index itself overflows, which is part of finding F4). */
/*@ ghost */
#define CI_N (self->_nNx)
#define CI_SLOT(nn, mm) ((long long)(mm) * CI_N - (long long)(mm) * ((mm) - 1) / 2 + (nn))
/*@ clause pre.range src=call-site */
/* (the constructor also evaluates index(-1, -1) for an empty sum, and accepts a storage degree N that is not used then) */
__CPROVER_requires(-32768 <= CI_N && CI_N <= 32767 && -1 <= m && m <= n && n <= 32767)
/*@ clause frame src=property props=C14 */
__CPROVER_assigns()
/*@ clause post.slot src=header props=C19 */
__CPROVER_ensures((long long)__CPROVER_return_value == CI_SLOT(n, m))
/*@ clause post.in_vector src=header props=C19,C13 tier=thorough */
/* for any maximum order M with m <= M <= N (ghost), the slot lies inside a vector of Csize(N, M) entries */
__CPROVER_ensures(!(0 <= m && n <= CI_N && m <= verif_ghost_int && verif_ghost_int <= CI_N) ||
                  (0 <= __CPROVER_return_value && (long long)__CPROVER_return_value < ((long long)verif_ghost_int + 1) * (2LL * CI_N - verif_ghost_int + 2) / 2))
/*@ clause post.injective src=header props=C19 tier=thorough */
/* another pair (n2, m2) = (ghost, ghost) in range with a different order or degree has a different slot */
__CPROVER_ensures(!(0 <= m && n <= CI_N && 0 <= verif_ghost_int2 && verif_ghost_int2 <= (int)(verif_ghost_idx % 32768) && (int)(verif_ghost_idx % 32768) <= CI_N) ||
                  (verif_ghost_int2 == m && (int)(verif_ghost_idx % 32768) == n) ||
                  CI_SLOT((int)(verif_ghost_idx % 32768), verif_ghost_int2) != (long long)__CPROVER_return_value)
