/* Contract of  void UTMUPS::DecodeEPSG(int epsg, int& zone, bool& northp)
 * Oracle: EPSG registry: 32601..32660 = WGS84 / UTM zone 1N..60N, 32661 = UPS north, 32701..32760 = UTM 1S..60S, 32761 = UPS south. -- C04 */
/*@ clause frame src=property props=C14 */
__CPROVER_assigns(*zone, *northp)
/*@ clause post.utm_north src=standard props=C04 */
__CPROVER_ensures(!(32601 <= epsg && epsg <= 32660) || (*zone == epsg - 32600 && *northp))
/*@ clause post.utm_south src=standard props=C04 */
__CPROVER_ensures(!(32701 <= epsg && epsg <= 32760) || (*zone == epsg - 32700 && !*northp))
/*@ clause post.ups src=standard props=C04 */
__CPROVER_ensures((epsg != 32661 || (*zone == 0 && *northp)) && (epsg != 32761 || (*zone == 0 && !*northp)))
/*@ clause post.invalid src=property props=C04 */
__CPROVER_ensures(((32601 <= epsg && epsg <= 32661) || (32701 <= epsg && epsg <= 32761)) || (*zone == -4 && !*northp))
