/* Contract of  Accumulator& Accumulator<T>::operator-=(T y)   (Accumulator.hpp, T = double).  Source: C16, C08.  Enforced with
 * Accumulator::Add replaced by its contract: exactly one Add(-y) on this accumulator (ghost record), nothing else written. */
/*@ clause frame src=property props=C14 only=enforce */
__CPROVER_assigns(self->_s, self->_t, g_Acc_calls, __CPROVER_object_whole(g_Acc_obj), __CPROVER_object_whole(g_Acc_y))
/*@ clause post.one_add src=property props=C16,C08 only=enforce */
__CPROVER_ensures(g_Acc_calls == 1 && g_Acc_obj[0] == (const void *)self && (isnan(y) ? isnan(g_Acc_y[0]) : (g_Acc_y[0] == -y && signbit(g_Acc_y[0]) == signbit(-y))))
/*@ clause post.state src=property props=C16 only=enforce */
__CPROVER_ensures(isnan(y) || (VERIF_SAME_D(self->_s, __CPROVER_uninterpreted_Acc_s(__CPROVER_old(self->_s), __CPROVER_old(self->_t), -y)) &&
                  VERIF_SAME_D(self->_t, __CPROVER_uninterpreted_Acc_t(__CPROVER_old(self->_s), __CPROVER_old(self->_t), -y))))
/*@ clause post.returns_self src=property only=enforce */
__CPROVER_ensures(__CPROVER_return_value == self)
