/* Contract of  void OSGB::CheckCoords(real x, real y)   (src/OSGB.cpp)
 * Oracle: the header's documented range of the OSGB grid: easting in [-1000 km, 1500 km), northing in
 * [-500 km, 2000 km); NaNs are let through.  -- C18, C13 */
/*@ clause frame src=property props=C13,C14 */
__CPROVER_assigns(verif_thrown)
/*@ clause post.throw_iff src=header props=C18,C13 */
__CPROVER_ensures((verif_thrown != 0) == (__CPROVER_old(verif_thrown) != 0 || x < -1000000.0 || x >= 1500000.0 || y < -500000.0 || y >= 2000000.0))
/*@ clause post.no_other_exception src=property props=C13 */
__CPROVER_ensures(!verif_thrown_other)
