/* Contract of  template<typename T> T Math::sind(T x)   (src/Math.cpp).  Source and conventions: see Math_sincosd.c.  -- C16 */
/*@ capture d:double */
/*@ ghost */
#define SD_K ((int)(vm_last_k & 3))
#define SD_EXACT (fabs(x) < 4503599627370496.0)
#define SD_R __CPROVER_return_value
/*@ clause frame src=property props=C14 only=enforce */
__CPROVER_assigns(vm_last_k, cap_d)
/*@ clause frame.caller src=property only=replace */
/* the ghost variables of the model / captures are not part of what a caller sees */
__CPROVER_assigns()
/*@ clause post.nan src=property props=C13,C16 */
__CPROVER_ensures(isnan(SD_R) == (isnan(x) || isinf(x)))
/*@ clause post.range src=property props=C16 */
__CPROVER_ensures(isnan(SD_R) || (-1.0 <= SD_R && SD_R <= 1.0))
/*@ clause post.multiples_of_90 src=property props=C16 only=enforce */
__CPROVER_ensures(!SD_EXACT || cap_d != 0 || (SD_R == (SD_K == 0 ? 0.0 : SD_K == 1 ? 1.0 : SD_K == 2 ? 0.0 : -1.0)))
/*@ clause post.zero_sign src=standard props=C16 */
__CPROVER_ensures(isnan(SD_R) || SD_R != 0 || signbit(SD_R) == signbit(x))
/*@ clause post.multiples_of_45 src=property props=C16 only=enforce */
__CPROVER_ensures(!SD_EXACT || fabs(cap_d) != 45.0 || fabs(SD_R) == 0x1.6a09e667f3bcdp-1)
/*@ clause post.multiples_of_30 src=property props=C16 only=enforce */
__CPROVER_ensures(!SD_EXACT || fabs(cap_d) != 30.0 || fabs(SD_R) == ((SD_K & 1) == 0 ? 0.5 : 0x1.bb67ae8584caap-1))
/*@ clause post.quadrant_sign src=property props=C16 only=enforce */
__CPROVER_ensures(!SD_EXACT || cap_d == 0 ||
   (SD_K == 0 ? (cap_d > 0 ? SD_R >= 0 : SD_R <= 0) : SD_K == 1 ? SD_R > 0 : SD_K == 2 ? (cap_d > 0 ? SD_R <= 0 : SD_R >= 0) : SD_R < 0))
