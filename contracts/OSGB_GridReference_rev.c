/* Contract of  void OSGB::GridReference(const std::string& gridref, real& x, real& y, int& prec, bool centerp)
 * Oracle: see OSGB_GridReference.c.  White space anywhere in the string is ignored.  -- C18, C13 */
/*@ ghost */
static const char osgr_letters[] = "ABCDEFGHJKLMNOPQRSTUVWXYZ";
static inline int osgr_nonspace(const vstr *s) { int n = 0; for (int i = 0; i < s->len; ++i) if (!(s->p[i] == ' ' || (s->p[i] >= '\t' && s->p[i] <= '\r'))) ++n; return n; }
#define OGR_INV (gridref->len >= 2 && VERIF_UP(gridref->p[0]) == 'I' && VERIF_UP(gridref->p[1]) == 'N')
#define OGR_ACC (!verif_thrown && !OGR_INV)
#define OGR_N (osgr_nonspace(gridref))
/*@ clause pre.string src=call-site */
__CPROVER_requires(gridref->len >= 0 && gridref->len < VERIF_STRCAP && __CPROVER_r_ok(gridref->p, VERIF_STRCAP) && gridref->p[gridref->len] == 0)
/*@ clause pre.not_thrown src=call-site */
__CPROVER_requires(verif_thrown == 0)
/*@ clause frame src=property props=C13,C14 */
__CPROVER_assigns(*x, *y, *prec, verif_thrown)
/*@ clause post.no_other_exception src=property props=C13 */
__CPROVER_ensures(!verif_thrown_other)
/*@ clause post.throw_unchanged src=property props=C13 */
__CPROVER_ensures(!verif_thrown || (VERIF_SAME_D(*x, __CPROVER_old(*x)) && VERIF_SAME_D(*y, __CPROVER_old(*y)) && *prec == __CPROVER_old(*prec)))
/*@ clause post.invalid_nan src=property props=C18,C13 */
__CPROVER_ensures(!OGR_INV || (!verif_thrown && isnan(*x) && isnan(*y) && *prec == -2))
/* The white-space-skipping copy loop is closed by a loop contract (so the proof does not depend on the string
   capacity); its invariant cannot call the counting function, so the relation prec == (non-space count - 2)/2
   is NOT decided here -- only its range. */
/*@ clause post.accept_structure src=standard props=C18 */
__CPROVER_ensures(!OGR_ACC || (0 <= *prec && *prec <= 11))
/*@ clause post.range src=standard props=C18 */
__CPROVER_ensures(!OGR_ACC || *prec != 0 || centerp ||
   (-1000000.0 <= *x && *x < 1500000.0 && -500000.0 <= *y && *y < 2000000.0))
/*@ loop 1 inv.copy */
__CPROVER_assigns(i, p, __CPROVER_object_whole(grid), verif_thrown)
__CPROVER_loop_invariant(0 <= i && i <= len && 0 <= p && p <= i && p <= 24 && verif_thrown == 0)
__CPROVER_decreases(len - i)
