/* Contract of  void GeodesicLine::LineInit(const Geodesic& g, real lat1, real lon1, real azi1, real salp1, real calp1, unsigned caps)
 * (src/GeodesicLine.cpp).  Source: C12 "a quantity the line lacks the capability to compute is NaN", Geodesic.hpp mask documentation
 * ("latitude, azimuth and longitude unrolling are always allowed"); the stored third point starts undefined (NaN); the line remembers
 * the point and azimuth it was given (C12 "line objects are self-consistent").  The series constants themselves are numeric (not decided);
 * their coefficient arrays are filled through the callee contracts (frames, bounds). */
/*@ clause frame src=property */
__CPROVER_assigns(*self)
/*@ clause post.caps src=header props=C12,C01 */
__CPROVER_ensures(self->_caps == (caps | LATITUDE | AZIMUTH | LONG_UNROLL))
/*@ clause post.third_point_undefined src=header props=C12 */
__CPROVER_ensures(isnan(self->_a13) && isnan(self->_s13))
/*@ clause post.point src=header props=C12,C01 */
__CPROVER_ensures(VERIF_SAME_D(self->_lon1, lon1) && VERIF_SAME_D(self->_azi1, azi1) && VERIF_SAME_D(self->_salp1, salp1) && VERIF_SAME_D(self->_calp1, calp1) &&
                  (fabs(lat1) <= 90.0 ? self->_lat1 == lat1 : isnan(self->_lat1)))
/*@ clause post.ellipsoid src=header props=C12 */
__CPROVER_ensures(VERIF_SAME_D(self->_a, g->_a) && VERIF_SAME_D(self->_f, g->_f) && self->_exact == g->_exact)
/*@ clause post.exact_delegate src=code props=C12,C01 only=enforce */
/* with exact = true the embedded exact line carries the same capability word */
__CPROVER_ensures(!g->_exact || self->_lineexact._caps == (caps | LATITUDE | AZIMUTH | LONG_UNROLL))
/*@ clause post.invariant src=code props=C12 */
/* what GenPosition / SetDistance / SetArc take as the line invariant (their pre.line clauses): copied from the solver object */
__CPROVER_ensures(VERIF_SAME_D(self->_f1, g->_f1) && VERIF_SAME_D(self->tiny_, g->tiny_))
