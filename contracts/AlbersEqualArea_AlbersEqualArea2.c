/* Contract of the constructor  AlbersEqualArea::AlbersEqualArea(real a, real f, real stdlat1, real stdlat2, real k1)   (two standard parallels)
 * Source: C13 as AlbersEqualArea_AlbersEqualArea.c. */
/*@ clause pre.not_thrown src=call-site */
__CPROVER_requires(verif_thrown == 0)
/*@ clause frame src=property */
__CPROVER_assigns(*self, verif_thrown)
/*@ clause post.rejects src=property props=C13 */
__CPROVER_ensures((verif_thrown != 0) == !(isfinite(a) && a > 0.0 && isfinite(f) && f < 1.0 && isfinite(k1) && k1 > 0.0 && fabs(stdlat1) <= 90.0 && fabs(stdlat2) <= 90.0))
/*@ clause post.no_other_exception src=property props=C13 */
__CPROVER_ensures(!verif_thrown_other)
