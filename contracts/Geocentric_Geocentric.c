/* Contract of the constructor  Geocentric::Geocentric(real a, real f)   (src/Geocentric.cpp)
 * Source: C13 "Constructors reject non-finite or out-of-range ellipsoid ... parameters with the library's exception".
 * It also ESTABLISHES the class invariant that Geocentric_IntReverse.c takes as its precondition (so that invariant is not merely assumed). */
/*@ clause pre.not_thrown src=call-site */
__CPROVER_requires(verif_thrown == 0)
/*@ clause frame src=property */
__CPROVER_assigns(self->_a, self->_f, self->_e2, self->_e2m, self->_e2a, self->_e4a, self->_maxrad, verif_thrown)
/*@ clause post.rejects src=property props=C13 */
__CPROVER_ensures((verif_thrown != 0) == !(isfinite(a) && a > 0.0 && isfinite(f) && f < 1.0))
/*@ clause post.no_other_exception src=property props=C13 */
__CPROVER_ensures(!verif_thrown_other)
/*@ clause post.invariant src=constructor props=C07 */
/* sign facts only: restating e2 = f(2-f) etc. would make the solver prove two multiplier circuits equal */
__CPROVER_ensures(verif_thrown ||
   (self->_a > 0.0 && !isinf(self->_a) && self->_f < 1.0 && !isinf(self->_f) && self->_e2m > 0.0 &&
    self->_e2 == self->_f * (2 - self->_f) && self->_e2a == fabs(self->_e2) && self->_e2a >= 0.0 && self->_e4a >= 0.0 && self->_maxrad > 0.0 && !isnan(self->_maxrad)))
