/* Contract of  Math::real DMS::Decode(const std::string& dms, flag& ind)   (src/DMS.cpp) -- the part AFTER the symbol substitutions:
 * trimming, splitting immediately before internal signs, decoding each piece, summing, and merging the hemisphere flags.
 * Source: C10 / DMS.hpp: "the string is split immediately before such signs and each piece is decoded ... and the results added";
 * "Any piece can include a hemisphere designator; however, if multiple designators are given, they must be compatible; e.g., you cannot
 * mix N and E"; the flag of the sum is the designator's kind if any piece has one; an empty string is malformed.
 * DROPPED / REWRITTEN by the job (R16, stated in the evidence): the table of `replace(dmsa, ...)` symbol substitutions (so the local copy dmsa
 * IS the argument), `InternalDecode(dmsa.substr(p, n), ind2)` -> the assumed piece contract, find_first_of(signs_) -> an explicit search loop. */
/*@ ghost */
static inline size_t verif_find_first_of_signs(const vstr *s, size_t from) {
  for (size_t i = from; i < (size_t)s->len; ++i)
    if (s->p[i] == '-' || s->p[i] == '+') return i;
  return VSTR_NPOS;
}
#define DD_FLAG(k) (g_piece_ind[k])
/*@ clause pre.string src=call-site */
__CPROVER_requires(verif_thrown == 0 && dms->len >= 0 && dms->len < VERIF_STRCAP && __CPROVER_r_ok(dms->p, VERIF_STRCAP) && dms->p[dms->len] == 0)
/*@ clause frame src=property props=C13,C14 */
__CPROVER_assigns(*ind, verif_thrown, g_piece_threw, g_piece_calls, __CPROVER_object_whole(g_piece_start), __CPROVER_object_whole(g_piece_len), __CPROVER_object_whole(g_piece_ind))
/*@ clause post.no_other_exception src=property props=C13,C10 */
__CPROVER_ensures(!verif_thrown_other)
/*@ clause post.throw_unchanged src=property props=C13 */
__CPROVER_ensures(!verif_thrown || *ind == __CPROVER_old(*ind))
/*@ clause post.empty_rejected src=header props=C10 */
/* at least one piece is decoded when the call succeeds (a string that is empty after trimming is malformed) */
__CPROVER_ensures(verif_thrown || g_piece_calls >= 1)
/*@ clause post.flag_of_sum src=header props=C10 */
/* up to four pieces (ghost record): the flag returned is the designator kind of the FIRST piece that has one (NONE if none has), and
   every later piece that has one agrees with it -- otherwise the string is rejected */
__CPROVER_ensures(verif_thrown || g_piece_calls > 4 ||
   (*ind == (g_piece_calls >= 1 && DD_FLAG(0) != 0 ? DD_FLAG(0) : g_piece_calls >= 2 && DD_FLAG(1) != 0 ? DD_FLAG(1) :
             g_piece_calls >= 3 && DD_FLAG(2) != 0 ? DD_FLAG(2) : g_piece_calls >= 4 && DD_FLAG(3) != 0 ? DD_FLAG(3) : 0)))
/*@ clause post.flags_compatible src=header props=C10 */
__CPROVER_ensures(verif_thrown || g_piece_calls > 4 ||
   ((g_piece_calls < 1 || DD_FLAG(0) == 0 || DD_FLAG(0) == *ind) && (g_piece_calls < 2 || DD_FLAG(1) == 0 || DD_FLAG(1) == *ind) &&
    (g_piece_calls < 3 || DD_FLAG(2) == 0 || DD_FLAG(2) == *ind) && (g_piece_calls < 4 || DD_FLAG(3) == 0 || DD_FLAG(3) == *ind)))
/*@ clause post.pieces_tile src=header props=C10 */
/* the pieces are consecutive (each starts where the previous one ended) and each later piece starts AT a sign: "split immediately before such signs" */
__CPROVER_ensures(verif_thrown || g_piece_calls > 4 ||
   ((g_piece_calls < 2 || (g_piece_start[1] == g_piece_start[0] + g_piece_len[0] && (dms->p[g_piece_start[1]] == '-' || dms->p[g_piece_start[1]] == '+'))) &&
    (g_piece_calls < 3 || (g_piece_start[2] == g_piece_start[1] + g_piece_len[1] && (dms->p[g_piece_start[2]] == '-' || dms->p[g_piece_start[2]] == '+'))) &&
    (g_piece_calls < 4 || (g_piece_start[3] == g_piece_start[2] + g_piece_len[2] && (dms->p[g_piece_start[3]] == '-' || dms->p[g_piece_start[3]] == '+')))))
/*@ clause post.rejects_only_conflicts src=header props=C10 */
/* completeness: when every piece decodes, the only reasons to reject are an empty string and two pieces whose designators are of different kinds
   ("70:01:15W+0:0:15N" is ILLEGAL, "1+2N" and "70:01:15+0:0:30W" are LEGAL) */
#define DD_CONFLICT(i, j) (g_piece_calls > (j) && DD_FLAG(i) != 0 && DD_FLAG(j) != 0 && DD_FLAG(i) != DD_FLAG(j))
__CPROVER_ensures(!verif_thrown || g_piece_threw || g_piece_calls == 0 || g_piece_calls > 4 ||
                  DD_CONFLICT(0, 1) || DD_CONFLICT(0, 2) || DD_CONFLICT(0, 3) || DD_CONFLICT(1, 2) || DD_CONFLICT(1, 3) || DD_CONFLICT(2, 3))
