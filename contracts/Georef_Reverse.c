/* Contract of  void Georef::Reverse(const std::string& georef, real& lat, real& lon, int& prec, bool centerp)
 * Oracle: World Geographic Reference System (see Georef_Forward.c).  -- C18, C13 */
/*@ ghost */
static const char grr_lontile[] = "ABCDEFGHJKLMNPQRSTUVWXYZ";
static const char grr_lattile[] = "ABCDEFGHJKLM";
static const char grr_degrees[] = "ABCDEFGHJKLMNPQ";
#define GRR_C(i) VERIF_UP(georef->p[i])
#define GRR_LEN (georef->len)
#define GRR_INV (GRR_LEN >= 3 && GRR_C(0) == 'I' && GRR_C(1) == 'N' && GRR_C(2) == 'V')
#define GRR_ACC (!verif_thrown && !GRR_INV)
#define GRR_IS24(c) ((c) >= 'A' && (c) <= 'Z' && (c) != 'I' && (c) != 'O')
#define GRR_IS15(c) ((c) >= 'A' && (c) <= 'Q' && (c) != 'I' && (c) != 'O')
#define GRR_IS12(c) ((c) >= 'A' && (c) <= 'M' && (c) != 'I')
#define GRR_G1 verif_ghost_idx
#define GRR_G2 verif_ghost_idx2
#define GRR_G3 verif_ghost_idx3
#define GRR_G4 verif_ghost_idx4
#define GRR_TILEMATCH (GRR_G1 < 24 && GRR_G2 < 12 && GRR_C(0) == grr_lontile[GRR_G1] && GRR_C(1) == grr_lattile[GRR_G2])
#define GRR_DEGMATCH (GRR_G3 < 15 && GRR_G4 < 15 && GRR_C(2) == grr_degrees[GRR_G3] && GRR_C(3) == grr_degrees[GRR_G4])
#define GRR_LON0 (15.0 * (double)GRR_G1 - 180.0)
#define GRR_LAT0 (15.0 * (double)GRR_G2 - 90.0)
/*@ clause pre.string src=call-site */
__CPROVER_requires(georef->len >= 0 && georef->len < VERIF_STRCAP && __CPROVER_r_ok(georef->p, VERIF_STRCAP) && georef->p[georef->len] == 0)
/*@ clause frame src=property props=C13,C14 */
__CPROVER_assigns(*lat, *lon, *prec, verif_thrown)
/*@ clause post.no_other_exception src=property props=C13 */
__CPROVER_ensures(!verif_thrown_other)
/*@ clause post.throw_unchanged src=property props=C13 */
__CPROVER_ensures(!verif_thrown || (VERIF_SAME_D(*lat, __CPROVER_old(*lat)) && VERIF_SAME_D(*lon, __CPROVER_old(*lon)) && *prec == __CPROVER_old(*prec)))
/*@ clause post.invalid_nan src=property props=C18,C13 */
__CPROVER_ensures(!GRR_INV || (!verif_thrown && isnan(*lat) && isnan(*lon)))
/*@ clause post.accept_structure src=standard props=C18 */
__CPROVER_ensures(!GRR_ACC || ((GRR_LEN == 2 || GRR_LEN == 4 || (GRR_LEN >= 8 && GRR_LEN <= 26 && GRR_LEN % 2 == 0)) &&
                               *prec == (GRR_LEN == 2 ? -1 : (GRR_LEN - 4) / 2)))
/*@ clause post.accept_alphabet src=standard props=C18 */
__CPROVER_ensures(!GRR_ACC || (GRR_IS24(GRR_C(0)) && GRR_IS12(GRR_C(1)) &&
                               (GRR_LEN < 4 || (GRR_IS15(GRR_C(2)) && GRR_IS15(GRR_C(3))))))
/*@ clause post.accept_digits src=standard props=C18 */
__CPROVER_ensures(!GRR_ACC || !(4 <= verif_ghost_idx && verif_ghost_idx < (size_t)GRR_LEN) ||
                  (georef->p[verif_ghost_idx] >= '0' && georef->p[verif_ghost_idx] <= '9'))
/*@ clause post.accept_minutes src=standard props=C18 */
__CPROVER_ensures(!GRR_ACC || GRR_LEN < 8 || (georef->p[4] < '6' && georef->p[4 + (GRR_LEN - 4) / 2] < '6'))
/*@ clause post.wellformed_accepted src=property props=C18 */
__CPROVER_ensures(!(!GRR_INV && (GRR_LEN == 2 || GRR_LEN == 4) && GRR_IS24(GRR_C(0)) && GRR_IS12(GRR_C(1)) &&
                    (GRR_LEN < 4 || (GRR_IS15(GRR_C(2)) && GRR_IS15(GRR_C(3))))) || !verif_thrown)
/*@ clause post.value_tile src=standard props=C18 */
__CPROVER_ensures(!GRR_ACC || GRR_LEN != 2 || !GRR_TILEMATCH ||
                  (*lon == GRR_LON0 + (centerp ? 7.5 : 0.0) && *lat == GRR_LAT0 + (centerp ? 7.5 : 0.0)))
/*@ clause post.value_degree src=standard props=C18 */
__CPROVER_ensures(!GRR_ACC || GRR_LEN != 4 || !GRR_TILEMATCH || !GRR_DEGMATCH ||
                  (*lon == GRR_LON0 + (double)GRR_G3 + (centerp ? 0.5 : 0.0) && *lat == GRR_LAT0 + (double)GRR_G4 + (centerp ? 0.5 : 0.0)))
/*@ clause post.value_in_degree_cell src=standard props=C18 tier=thorough */
__CPROVER_ensures(!GRR_ACC || GRR_LEN < 8 || !GRR_TILEMATCH || !GRR_DEGMATCH ||
                  (GRR_LON0 + (double)GRR_G3 <= *lon && *lon <= GRR_LON0 + (double)GRR_G3 + 1.0 &&
                   GRR_LAT0 + (double)GRR_G4 <= *lat && *lat <= GRR_LAT0 + (double)GRR_G4 + 1.0))
