/* Contract of  Math::real GeodesicLine::GenPosition(bool arcmode, real s12_a12, unsigned outmask, real& lat2, real& lon2,
 *                real& azi2, real& s12, real& m12, real& M12, real& M21, real& S12) const      (src/GeodesicLine.cpp)
 * Source: C12 "quantities that were not requested, or that a line object lacks the capability to compute, are left untouched,
 * and a line that cannot locate the point at all (uninitialised, or asked for a distance without that capability) returns NaN";
 * C01 "returned longitudes and azimuths lie in [-180,180]"; C14 (const: the object is not written).
 * The series path (exact = false) is what is under contract; the delegation to GeodesicLineExact is a separate function.
 * Output bits of the mask: LATITUDE 1<<7, LONGITUDE 1<<8, AZIMUTH 1<<9, DISTANCE 1<<10, DISTANCE_IN 1<<11,
 * REDUCEDLENGTH 1<<12, GEODESICSCALE 1<<13, AREA 1<<14, LONG_UNROLL 1<<15 (Geodesic.hpp), each OR-ed with capability bits. */
/*@ capture lon12:double */
/*@ ghost */
/* what a caller that replaces the call by this contract can say about HOW it called (GenDirect: "DISTANCE_IN is supplied automatically") */
unsigned g_GP_calls, g_GP_outmask, g_GP_caps; _Bool g_GP_arcmode, g_GP_can; double g_GP_s12_a12;
/*@ ghost-init */
g_GP_calls = 0;
/*@ ghost */
#define GP_CAN (self->_caps != 0U && (arcmode || (self->_caps & (0xFF80U & DISTANCE_IN)) != 0U))
#define GP_ON(bit) (GP_CAN && (outmask & self->_caps & 0xFF80U & (bit)) != 0U)
/*@ clause pre.series_line src=call-site */
__CPROVER_requires(!self->_exact)
/*@ clause pre.line_invariant src=LineInit */
/* established by LineInit: f < 1 hence _f1 = 1 - f > 0; the constructor is not under contract (see evidence) */
__CPROVER_requires(self->_f1 > 0.0 && !isinf(self->_f1) && self->tiny_ > 0.0)
/*@ clause frame.capture src=ghost only=enforce */
__CPROVER_assigns(cap_lon12)
/*@ clause frame src=property props=C12,C14 */
__CPROVER_assigns(GP_ON(LATITUDE): *lat2; GP_ON(LONGITUDE): *lon2; GP_ON(AZIMUTH): *azi2; GP_ON(DISTANCE): *s12;
                  GP_ON(REDUCEDLENGTH): *m12; GP_ON(GEODESICSCALE): *M12; GP_ON(GEODESICSCALE): *M21; GP_ON(AREA): *S12)
/*@ clause frame.ghost src=ghost only=replace-ghost */
__CPROVER_assigns(g_GP_calls, g_GP_outmask, g_GP_caps, g_GP_arcmode, g_GP_can, g_GP_s12_a12)
/*@ clause post.ghost src=ghost only=replace-ghost */
__CPROVER_ensures(g_GP_calls == __CPROVER_old(g_GP_calls) + 1 && g_GP_outmask == outmask && g_GP_caps == self->_caps && g_GP_arcmode == arcmode &&
                  g_GP_can == (GP_CAN ? 1 : 0) && VERIF_SAME_D(g_GP_s12_a12, s12_a12))
/*@ clause post.nan_if_cannot src=property props=C12,C13 */
__CPROVER_ensures(GP_CAN || isnan(__CPROVER_return_value))
/*@ clause post.arc_returned src=header props=C12 */
__CPROVER_ensures(!GP_CAN || !arcmode || VERIF_SAME_D(__CPROVER_return_value, s12_a12))
/*@ clause post.distance_passthrough src=header props=C12 */
__CPROVER_ensures(!GP_ON(DISTANCE) || arcmode || VERIF_SAME_D(*s12, s12_a12))
/*@ clause post.azimuth_range src=property props=C01 */
__CPROVER_ensures(!GP_ON(AZIMUTH) || isnan(*azi2) || (-180.0 <= *azi2 && *azi2 <= 180.0))
/*@ clause post.latitude_range src=property props=C01 */
__CPROVER_ensures(!GP_ON(LATITUDE) || isnan(*lat2) || (-90.0 <= *lat2 && *lat2 <= 90.0))
/*@ clause post.longitude_range src=property props=C01 */
__CPROVER_ensures(!GP_ON(LONGITUDE) || (outmask & LONG_UNROLL) != 0U || isnan(*lon2) || (-180.0 <= *lon2 && *lon2 <= 180.0))
/*@ clause post.longitude_unrolled src=property props=C01 only=enforce */
/* C01 "with longitude unrolling lon2 - lon1 counts the true number and sense of circuits": the unrolled longitude is the stored lon1 itself
   (NOT reduced to [-180, 180]) plus the longitude difference along the geodesic (the local lon12, ghost capture R21) */
__CPROVER_ensures(!GP_ON(LONGITUDE) || (outmask & self->_caps & LONG_UNROLL) == 0U || VERIF_SAME_D(*lon2, self->_lon1 + cap_lon12))
