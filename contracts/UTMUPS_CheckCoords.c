/* Contract of  bool UTMUPS::CheckCoords(bool utmp, bool northp, real x, real y, bool mgrslimits, bool throwp)
 * Oracle: the documented legal ranges (UTMUPS.hpp): UTM easting [0, 1000] km, northing [-9100, 9600] km (N) and
 * [900, 19600] km (S); UPS [1200, 2800] km (N), [700, 3300] km (S); all closed; each shrunk by 100 km when
 * mgrslimits; NaNs pass.  -- C04, C13 */
/*@ ghost */
#define UCC_S (mgrslimits ? 0.0 : 100000.0)
#define UCC_XMIN ((utmp ? 100000.0 : northp ? 1300000.0 : 800000.0) - UCC_S)
#define UCC_XMAX ((utmp ? 900000.0 : northp ? 2700000.0 : 3200000.0) + UCC_S)
#define UCC_YMIN ((utmp ? (northp ? -9000000.0 : 1000000.0) : northp ? 1300000.0 : 800000.0) - UCC_S)
#define UCC_YMAX ((utmp ? (northp ? 9500000.0 : 19500000.0) : northp ? 2700000.0 : 3200000.0) + UCC_S)
#define UCC_BAD (x < UCC_XMIN || x > UCC_XMAX || y < UCC_YMIN || y > UCC_YMAX)
/*@ clause pre.not_thrown src=call-site */
__CPROVER_requires(verif_thrown == 0)
/*@ clause frame src=property props=C13,C14 */
__CPROVER_assigns(verif_thrown)
/*@ clause post.no_other_exception src=property props=C13 */
__CPROVER_ensures(!verif_thrown_other)
/*@ clause post.throw_iff src=header props=C04,C13 */
__CPROVER_ensures((verif_thrown != 0) == (throwp && UCC_BAD))
/*@ clause post.result src=header props=C04 */
__CPROVER_ensures(verif_thrown || (__CPROVER_return_value == !UCC_BAD))
