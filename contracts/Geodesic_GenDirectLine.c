/* Contract of  GeodesicLine Geodesic::GenDirectLine(real lat1, real lon1, real azi1, bool arcmode, real s12_a12, unsigned caps) const
 * (src/Geodesic.cpp; DirectLine and ArcDirectLine are one-line wrappers of it).  Source: C12 "a line's stored third point (set by distance,
 * by arc, or by the direct ... line constructors) reproduces the end point that defined it"; Geodesic.hpp: DISTANCE_IN is supplied
 * automatically when the third point is given by distance, so that the line can do what it was created for.
 * Stated for the series solver (exact = false), as the line constructor it calls (GeodesicLine_GeodesicLine9.c).
 * REWRITE (R16): `return GeodesicLine(*this, ...)` becomes a named local built by the same constructor call and returned by value. */
/*@ clause pre.solver src=class-invariant */
__CPROVER_requires(!self->_exact && self->_f1 > 0.0 && !isinf(self->_f1) && self->tiny_ > 0.0)
/*@ clause frame src=property props=C14 */
__CPROVER_assigns()
/*@ clause post.caps src=header props=C12,C01 */
__CPROVER_ensures(__CPROVER_return_value._caps == ((caps | (arcmode ? 0U : DISTANCE_IN)) | LATITUDE | AZIMUTH | LONG_UNROLL))
/*@ clause post.third_point src=property props=C12 */
__CPROVER_ensures(arcmode ? VERIF_SAME_D(__CPROVER_return_value._a13, s12_a12) : VERIF_SAME_D(__CPROVER_return_value._s13, s12_a12))
/*@ clause post.third_point_located src=property props=C12 */
/* given by distance, the third point can always be located: the capability needed for that is part of the line (no NaN "for want of DISTANCE_IN");
   given by arc, its distance is NaN exactly when the caller did not ask for the DISTANCE capability */
__CPROVER_ensures(arcmode ? ((caps & 0xFF80U & DISTANCE) != 0U || isnan(__CPROVER_return_value._s13))
                          : (__CPROVER_return_value._caps & 0xFF80U & DISTANCE_IN) != 0U)
/*@ clause post.point src=header props=C12,C01 */
__CPROVER_ensures(VERIF_SAME_D(__CPROVER_return_value._lon1, lon1) &&
                  (isnan(__CPROVER_return_value._azi1) == (isnan(azi1) || isinf(azi1))) && (isnan(__CPROVER_return_value._azi1) || fabs(__CPROVER_return_value._azi1) <= 180.0) &&
                  (!(fabs(azi1) <= 180.0) || (__CPROVER_return_value._azi1 == azi1 && signbit(__CPROVER_return_value._azi1) == signbit(azi1))))
