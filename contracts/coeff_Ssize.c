/* Contract of  static int SphericalEngine::coeff::Ssize(int N, int M)  (SphericalEngine.hpp, inline): the sine coefficients
 * omit the m = 0 row.  Precondition as for Csize.  -- C19, C13 */
/*@ clause pre.header_check src=call-site */
__CPROVER_requires((N >= M && M >= 0) || (N == -1 && M == -1))
/*@ clause frame src=property props=C14 */
__CPROVER_assigns()
/*@ clause post.count src=definition props=C19,C13 */
__CPROVER_ensures((long long)__CPROVER_return_value == ((long long)M + 1) * (2LL * N - M + 2) / 2 - ((long long)N + 1) && __CPROVER_return_value >= 0)
