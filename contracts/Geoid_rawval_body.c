/* Contract of  real Geoid::rawval(int ix, int iy) const   (Geoid.hpp, inline) -- the index logic under contract.
 * Source: C20 / Geoid.hpp: longitude wrap-around (one period either side), reflection of a row beyond a pole to the row the same
 * distance inside it with the longitude turned by half a period, area cache addressed relative to its north-west corner.
 * Rule R16 (job-specific rewrites, listed in the evidence): the two std::ifstream::get calls become geoid_file_byte() (an arbitrary
 * byte), the element of the area cache becomes geoid_cache_read(row, column) whose bounds are CHECKED; try/catch is reduced to its try body.
 * Spec: the pixel read is that of column (ix mod w) resp. ((ix + w/2) mod w) and row iy resp. the reflected row, stated on the ghost
 * file position. */
/*@ uses Geoid_filepos */
/*@ ghost */
unsigned char nondet_uchar(void);
static inline char geoid_file_byte(void) { return (char)nondet_uchar(); }
int g_geoid_cache_row, g_geoid_cache_col, g_geoid_cache_used;
#define RV_W (self->_width)
#define RV_H (self->_height)
#define RV_POLAR (iy < 0 || iy >= RV_H)
#define RV_COL0 (ix < 0 ? ix + RV_W : ix >= RV_W ? ix - RV_W : ix)                          /* wrapped column */
#define RV_COL (RV_POLAR ? (RV_COL0 < RV_W / 2 ? RV_COL0 + RV_W / 2 : RV_COL0 - RV_W / 2) : RV_COL0)   /* half a turn beyond a pole */
#define RV_ROW (iy < 0 ? -iy : iy >= RV_H ? 2 * (RV_H - 1) - iy : iy)
/*@ clause pre.invariant src=constructor */
__CPROVER_requires(RV_W >= 2 && RV_W % 2 == 0 && RV_W <= 1000000 && RV_H >= 3 && RV_H % 2 == 1 && RV_H <= 1000001 && verif_thrown == 0)
/*@ clause pre.indices src=Geoid.hpp */
__CPROVER_requires(-RV_W <= ix && ix < 2 * RV_W && -(RV_H - 1) <= iy && iy <= 2 * (RV_H - 1))
/*@ clause pre.cache src=CacheArea */
/* the area cache, when on, lies inside the grid (established by CacheArea / CacheAll: not under contract) */
__CPROVER_requires(!self->_cache || (0 <= self->_yoffset && self->_yoffset <= RV_H && 0 <= self->_ysize && self->_ysize <= RV_H && self->_yoffset + self->_ysize <= RV_H &&
                                     0 <= self->_xoffset && self->_xoffset < RV_W && 0 <= self->_xsize && self->_xsize <= RV_W))
/*@ clause frame src=property props=C14,C20 */
__CPROVER_assigns(verif_thrown, g_geoid_file_ix, g_geoid_file_iy, g_geoid_cache_row, g_geoid_cache_col, g_geoid_cache_used)
/*@ clause post.file_pixel src=Geoid.hpp props=C20 */
__CPROVER_ensures(verif_thrown || g_geoid_cache_used || (g_geoid_file_ix == RV_COL && g_geoid_file_iy == RV_ROW))
/*@ clause post.cache_pixel src=Geoid.hpp props=C20 */
/* a cached pixel is the pixel of the same (wrapped) column and row: row yoffset + r, column (xoffset + c) mod w */
__CPROVER_ensures(verif_thrown || !g_geoid_cache_used ||
                  (!RV_POLAR && self->_yoffset + g_geoid_cache_row == iy && (self->_xoffset + g_geoid_cache_col) % RV_W == RV_COL0))
/*@ clause post.range src=format */
__CPROVER_ensures(verif_thrown || (0.0 <= __CPROVER_return_value && __CPROVER_return_value <= 4294967295.0))
/*@ ghost-init */
g_geoid_cache_used = 0;
/*@ ghost */
static inline double geoid_cache_read(struct Geoid *self, int r, int c) {
  __CPROVER_assert(0 <= r && r < self->_ysize, "area cache row index inside the cached block");
  __CPROVER_assert(0 <= c && c < self->_xsize, "area cache column index inside the cached block");
  g_geoid_cache_used = 1; g_geoid_cache_row = r; g_geoid_cache_col = c;
  return (double)nondet_unsigned();
}
