/* Contract of  static real Geodesic::A1m1f(real eps)   (src/Geodesic.cpp): table reads in bounds (checked by cbmc), no state. -- C01, C13, C14 */
/*@ clause frame src=property props=C14 */
__CPROVER_assigns()
/*@ clause post.nan src=property props=C13 */
__CPROVER_ensures(!isnan(eps) || isnan(__CPROVER_return_value))
