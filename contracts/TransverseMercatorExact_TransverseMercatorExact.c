/* Contract of the constructor  TransverseMercatorExact::TransverseMercatorExact(real a, real f, real k0, bool extendp)   (src/TransverseMercatorExact.cpp)
 * Source: C13 constructor validation; TransverseMercatorExact.hpp: "f must be positive" (the exact form is for oblate ellipsoids).
 * DROPPED by the job (stated in the evidence): the initialisers of the two EllipticFunction member objects _eEu(_mu), _eEv(_mv) (another class;
 * for 0 < f < 1 their parameters lie in (0, 1), where EllipticFunction accepts them). */
/*@ clause pre.not_thrown src=call-site */
__CPROVER_requires(verif_thrown == 0)
/*@ clause frame src=property */
__CPROVER_assigns(self->tol_, self->tol2_, self->taytol_, self->_a, self->_f, self->_k0, self->_mu, self->_mv, self->_e, self->_extendp, verif_thrown)
/*@ clause post.rejects src=property props=C13 */
__CPROVER_ensures((verif_thrown != 0) == !(isfinite(a) && a > 0.0 && f > 0.0 && f < 1.0 && isfinite(k0) && k0 > 0.0))
/*@ clause post.no_other_exception src=property props=C13 */
__CPROVER_ensures(!verif_thrown_other)
/*@ clause post.stores src=constructor props=C13 */
__CPROVER_ensures(verif_thrown || (self->_a == a && self->_f == f && self->_k0 == k0 && self->_extendp == extendp))
