/* ASSUMED contract of the composition  InternalDecode(dmsa.substr(p, n), ind2)  as it is called by DMS::Decode for each signed piece
 * (std::string::substr is outside the extraction; InternalDecode itself is verified in DMS_InternalDecode.c, whose proven clauses
 * post.ind_values and post.throw_unchanged are what is assumed here).  Ghost record: which pieces were decoded, in order. */
/*@ ghost */
_Bool g_piece_threw; unsigned g_piece_calls; size_t g_piece_start[4], g_piece_len[4]; int g_piece_ind[4];
/*@ ghost-init */
g_piece_calls = 0; g_piece_threw = 0;
/*@ prototype */
double DMS_InternalDecode_piece(const vstr *s, size_t p, size_t n, int *ind)
/*@ clause pre.substr src=std::string */
/* std::string::substr(p, n) throws std::out_of_range when p > size() (n is clipped): the caller must stay inside the string */
__CPROVER_requires(verif_thrown == 0 && p <= (size_t)s->len)
/*@ clause frame src=assumed */
__CPROVER_assigns(*ind, verif_thrown, g_piece_threw, g_piece_calls, __CPROVER_object_whole(g_piece_start), __CPROVER_object_whole(g_piece_len), __CPROVER_object_whole(g_piece_ind))
/*@ clause post.ind src=InternalDecode */
__CPROVER_ensures(verif_thrown ? *ind == __CPROVER_old(*ind) : (*ind == 0 || *ind == 1 || *ind == 2))
/*@ clause post.ghost src=ghost */
#define PIECE_SLOT(i) (__CPROVER_old(g_piece_calls) == (i) ? (g_piece_start[i] == p && g_piece_len[i] == n && (verif_thrown || g_piece_ind[i] == *ind)) \
                                                           : (g_piece_start[i] == __CPROVER_old(g_piece_start[i]) && g_piece_len[i] == __CPROVER_old(g_piece_len[i]) && g_piece_ind[i] == __CPROVER_old(g_piece_ind[i])))
__CPROVER_ensures(g_piece_threw == (__CPROVER_old(g_piece_threw) || verif_thrown != 0) && g_piece_calls == __CPROVER_old(g_piece_calls) + 1 && PIECE_SLOT(0) && PIECE_SLOT(1) && PIECE_SLOT(2) && PIECE_SLOT(3))
