/* Contract of  static int PolygonAreaT<GeodType>::transitdirect(real lon1, real lon2)   (src/PolygonArea.cpp)
 * Source: the function's documentation, "compute exactly the parity of int(floor(lon2 / 360)) - int(floor(lon1 / 360))" -- C08
 * (crossing count for unrolled longitudes of direct edges).  n1, n2 are arbitrary integers (ghosts) that witness
 * floor(lon/360); the product 360 n is exact. */
/*@ ghost */
#define TD_N1 verif_ghost_int
#define TD_N2 verif_ghost_int2
#define TD_IN(n, v) (-TD_MAXTURNS <= (n) && (n) < TD_MAXTURNS && 360.0 * (double)(n) <= (v) && (v) < 360.0 * ((double)(n) + 1.0))
#ifndef TD_MAXTURNS
#define TD_MAXTURNS 4096   /* quick tier: |lon| < 4096 turns; thorough tier: 2^31 turns */
#endif
/*@ clause frame src=property props=C14 only=enforce */
__CPROVER_assigns(vm_last_k)
/*@ clause frame.caller src=property only=replace */
/* the model's ghost is not part of what a caller sees */
__CPROVER_assigns()
/*@ clause post.range src=property props=C08 */
__CPROVER_ensures(-1 <= __CPROVER_return_value && __CPROVER_return_value <= 1)
/*@ clause post.parity src=header props=C08 */
__CPROVER_ensures(!(TD_IN(TD_N1, lon1) && TD_IN(TD_N2, lon2)) ||
                  __CPROVER_return_value == (TD_N2 % 2 != 0 ? 1 : 0) - (TD_N1 % 2 != 0 ? 1 : 0))
/*@ ghost */
int __CPROVER_uninterpreted_transitdirect(double, double);
/*@ clause post.deterministic src=purity only=replace */
/* for callers: the count is a function of the two longitudes only (the function is static and reads nothing else) */
__CPROVER_ensures(__CPROVER_return_value == __CPROVER_uninterpreted_transitdirect(lon1, lon2))
