/* Contract of the constructor  GeodesicExact::GeodesicExact(real a, real f)   (src/GeodesicExact.cpp)
 * Source: C13 constructor validation, and memory safety of the table look-up that chooses the number of terms of the area series:
 * narr[j] with j = ndiv + int(floor or ceil of ndiv * n), n = f / (2 - f) -- the source's own comment "j in [0, 2*ndiv]" is a checked
 * array-bounds obligation here, for every accepted (a, f).
 * DROPPED by the job (stated in the evidence): `_fft.reset(N)` (the DST object, another class). */
/*@ clause pre.not_thrown src=call-site */
__CPROVER_requires(verif_thrown == 0)
/*@ clause frame src=property */
__CPROVER_assigns(*self, verif_thrown)
/*@ clause post.rejects_radius src=property props=C13 */
__CPROVER_ensures((isfinite(a) && a > 0.0) || verif_thrown)
/*@ clause post.rejects_flattening src=property props=C13 */
__CPROVER_ensures((isfinite(f) && f < 1.0) || verif_thrown)
/*@ clause post.rejects_iff src=code props=C13 */
__CPROVER_ensures((verif_thrown != 0) == !(isfinite(a) && a > 0.0 && isfinite(self->_b) && self->_b > 0.0))
/*@ clause post.accepts src=property props=C13 */
__CPROVER_ensures(!(1e-100 <= a && a <= 1e100 && -1e10 <= f && f <= 0.999999) || !verif_thrown)
/*@ clause post.no_other_exception src=property props=C13 */
__CPROVER_ensures(!verif_thrown_other)
/*@ clause post.series_size src=code props=C13,C12 */
/* the invariant GeodesicLineExact::LineInit takes as its precondition */
__CPROVER_ensures(verif_thrown || (2 <= self->_nC4 && self->_nC4 <= 1048576))
