/* ASSUMED contract of  Math::real Geodesic::GenInverse(real lat1, real lon1, real lat2, real lon2, unsigned outmask,
 *      real& s12, real& azi1, real& azi2, real& m12, real& M12, real& M21, real& S12) const     (the inverse solver: numeric, C02 is
 * not applicable; body not verified).  Frame: the seven outputs (a superset of what the mask selects); the solver object is not written.
 * The ghost record lets a caller's postcondition say WHICH geodesic it asked for, in call order, and which results it got. */
/*@ ghost */
unsigned g_GI_calls; double g_GI_lat1[2], g_GI_lon1[2], g_GI_lat2[2], g_GI_lon2[2], g_GI_s12[2], g_GI_S12[2]; unsigned g_GI_mask[2];
/*@ ghost-init */
g_GI_calls = 0;
/*@ clause frame src=assumed */
__CPROVER_requires(1)
__CPROVER_assigns(*s12, *azi1, *azi2, *m12, *M12, *M21, *S12, g_GI_calls, __CPROVER_object_whole(g_GI_lat1), __CPROVER_object_whole(g_GI_lon1),
                  __CPROVER_object_whole(g_GI_lat2), __CPROVER_object_whole(g_GI_lon2), __CPROVER_object_whole(g_GI_s12), __CPROVER_object_whole(g_GI_S12),
                  __CPROVER_object_whole(g_GI_mask))
/*@ clause post.ghost src=ghost */
/* slot number (calls so far) records this call and its results; the other slot keeps its record */
#define GI_REC(i) (VERIF_SAME_D(g_GI_lat1[i], lat1) && VERIF_SAME_D(g_GI_lon1[i], lon1) && VERIF_SAME_D(g_GI_lat2[i], lat2) && VERIF_SAME_D(g_GI_lon2[i], lon2) && \
                   g_GI_mask[i] == outmask && VERIF_SAME_D(g_GI_s12[i], *s12) && VERIF_SAME_D(g_GI_S12[i], *S12))
#define GI_KEEP(i) (VERIF_SAME_D(g_GI_lat1[i], __CPROVER_old(g_GI_lat1[i])) && VERIF_SAME_D(g_GI_lon1[i], __CPROVER_old(g_GI_lon1[i])) && \
                    VERIF_SAME_D(g_GI_lat2[i], __CPROVER_old(g_GI_lat2[i])) && VERIF_SAME_D(g_GI_lon2[i], __CPROVER_old(g_GI_lon2[i])) && \
                    g_GI_mask[i] == __CPROVER_old(g_GI_mask[i]) && VERIF_SAME_D(g_GI_s12[i], __CPROVER_old(g_GI_s12[i])) && VERIF_SAME_D(g_GI_S12[i], __CPROVER_old(g_GI_S12[i])))
__CPROVER_ensures(g_GI_calls == __CPROVER_old(g_GI_calls) + 1 &&
                  (__CPROVER_old(g_GI_calls) == 0 ? GI_REC(0) : GI_KEEP(0)) && (__CPROVER_old(g_GI_calls) == 1 ? GI_REC(1) : GI_KEEP(1)))
