/* ASSUMED contract of  void TransverseMercator::Reverse(real lon0, real x, real y, real& lat, real& lon, real& gamma, real& k) const
 * for the UTM singleton (body not verified: numeric).  Frame, no exception, ghost record of the call. */
/*@ ghost */
double g_TMR_lon0, g_TMR_x, g_TMR_y, g_TMR_lat, g_TMR_lon, g_TMR_gamma, g_TMR_k; unsigned g_TMR_calls;
/*@ ghost-init */
g_TMR_calls = 0;
/*@ clause frame src=assumed */
__CPROVER_assigns(*lat, *lon, *gamma, *k, g_TMR_lon0, g_TMR_x, g_TMR_y, g_TMR_lat, g_TMR_lon, g_TMR_gamma, g_TMR_k, g_TMR_calls)
/*@ clause post.ghost src=ghost */
__CPROVER_ensures(g_TMR_calls == __CPROVER_old(g_TMR_calls) + 1 && g_TMR_lon0 == lon0 && VERIF_SAME_D(g_TMR_x, x) && VERIF_SAME_D(g_TMR_y, y) &&
                  VERIF_SAME_D(g_TMR_lat, *lat) && VERIF_SAME_D(g_TMR_lon, *lon) && VERIF_SAME_D(g_TMR_gamma, *gamma) && VERIF_SAME_D(g_TMR_k, *k))
