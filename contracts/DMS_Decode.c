/* ASSUMED contract of  Math::real DMS::Decode(const std::string& dms, flag& ind)  (symbol substitution, trimming and
 * splitting at internal signs use std::string editing: outside the extraction).  It may throw GeographicErr; on success the
 * flag is NONE, LATITUDE or LONGITUDE (InternalDecode's proven post.ind_values); the value is any real.
 * Ghost: values returned by the first and the second call, so that callers' postconditions can refer to them. */
/*@ ghost */
double g_Decode_val[2]; int g_Decode_ind[2]; unsigned g_Decode_calls;
/*@ ghost-init */
g_Decode_calls = 0;
/*@ clause frame src=assumed */
__CPROVER_assigns(*ind, verif_thrown, g_Decode_calls, __CPROVER_object_whole(g_Decode_val), __CPROVER_object_whole(g_Decode_ind))
/*@ clause pre.not_thrown src=call-site */
__CPROVER_requires(verif_thrown == 0)
/*@ clause post.ind src=InternalDecode */
__CPROVER_ensures(verif_thrown ? *ind == __CPROVER_old(*ind) : (*ind == 0 || *ind == 1 || *ind == 2))
/*@ clause post.ghost src=ghost */
__CPROVER_ensures(g_Decode_calls == __CPROVER_old(g_Decode_calls) + 1 &&
   (verif_thrown || __CPROVER_old(g_Decode_calls) >= 2 ||
    (VERIF_SAME_D(g_Decode_val[__CPROVER_old(g_Decode_calls)], __CPROVER_return_value) && g_Decode_ind[__CPROVER_old(g_Decode_calls)] == *ind)))
/*@ clause post.ghost_keep src=ghost */
__CPROVER_ensures(__CPROVER_old(g_Decode_calls) != 1 || (VERIF_SAME_D(g_Decode_val[0], __CPROVER_old(g_Decode_val[0])) && g_Decode_ind[0] == __CPROVER_old(g_Decode_ind[0])))
