/* Contract of  void AuxLatitude::fillcoeff(int auxin, int auxout, int k) const   (src/AuxLatitude.cpp)
 * Source: C14 "any number of threads may concurrently call the const member functions of the same ... object ... without data
 * races": the sufficient condition is that a const member function writes no member.  fillcoeff is const and is called from the
 * const Convert / DConvert on first use of a conversion.  Also C13 / C15 (table addressing): every read of the coefficient table
 * coeffs[] through the offset table ptrs[] is in bounds, for all 36 conversions.
 * `frame` is the property; `frame.actual` is what the code does (it fills a slice of the mutable cache _c): see known_findings.txt F6. */
/*@ clause pre.index src=call-site */
__CPROVER_requires(k == ((auxout >= 0 && auxout < 6 && auxin >= 0 && auxin < 6) ? 6 * auxout + auxin : -1))
/*@ clause frame src=property props=C14 */
__CPROVER_assigns()
/*@ clause frame.actual src=code */
/* only the slice of the cache that belongs to conversion k: [_c[Lmax k], _c[Lmax (k+1)]) with Lmax = 6 */
__CPROVER_assigns(k >= 0: __CPROVER_object_upto(self->_c + 6 * k, 6 * sizeof(double)))
