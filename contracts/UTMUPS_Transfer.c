/* Contract of  void UTMUPS::Transfer(int zonein, bool northpin, real xin, real yin, int zoneout, bool northpout,
 *                                    real& xout, real& yout, int& zone)
 * Oracle: UTMUPS.hpp: within one zone a change of hemisphere convention shifts the northing by exactly 10000 km;
 * UPS coordinates cannot change hemisphere; a change of zone goes through geographic coordinates (Reverse then Forward
 * with the requested zone, MATCH = -3 meaning "keep the input zone").  Reverse/Forward are replaced by their contracts.  -- C04, C13 */
/*@ uses UTMUPS_Forward Math_AngNormalize TransverseMercator_Forward PolarStereographic_Forward TransverseMercator_Reverse PolarStereographic_Reverse */
/*@ ghost */
#define UT_SAME (VERIF_SAME_D(*xout, __CPROVER_old(*xout)) && VERIF_SAME_D(*yout, __CPROVER_old(*yout)) && *zone == __CPROVER_old(*zone))
/*@ clause pre.not_thrown src=call-site */
__CPROVER_requires(verif_thrown == 0)
/*@ clause frame src=property props=C13,C14 */
__CPROVER_assigns(*xout, *yout, *zone, verif_thrown, g_AngNormalize_arg, g_AngNormalize_ret, g_AngNormalize_calls,
                  g_TM_x, g_TM_y, g_TM_gamma, g_TM_k, g_TM_lon0, g_TM_lat, g_TM_lon, g_TM_calls,
                  g_PS_x, g_PS_y, g_PS_gamma, g_PS_k, g_PS_calls, g_PS_northp,
                  g_TMR_lon0, g_TMR_x, g_TMR_y, g_TMR_lat, g_TMR_lon, g_TMR_gamma, g_TMR_k, g_TMR_calls,
                  g_PSR_x, g_PSR_y, g_PSR_lat, g_PSR_lon, g_PSR_gamma, g_PSR_k, g_PSR_calls, g_PSR_northp,
                  g_UF_zone, g_UF_northp, g_UF_x, g_UF_y, g_UF_setzone)
/*@ clause post.no_other_exception src=property props=C13 */
__CPROVER_ensures(!verif_thrown_other)
/*@ clause post.throw_unchanged src=property props=C04,C13 */
__CPROVER_ensures(!verif_thrown || UT_SAME)
/*@ clause post.same_zone src=header props=C04 */
__CPROVER_ensures(zonein != zoneout ||
                  ((verif_thrown != 0) == (zoneout == 0 && northpin != northpout) &&
                   (verif_thrown || (*zone == zoneout && VERIF_SAME_D(*xout, xin) &&
                                     (northpin == northpout ? VERIF_SAME_D(*yout, yin) : VERIF_SAME_D(*yout, yin + (northpout ? -10000000.0 : 10000000.0))) &&
                                     g_TM_calls == 0 && g_PS_calls == 0 && g_TMR_calls == 0 && g_PSR_calls == 0))))
/*@ clause post.ups_hemisphere src=header props=C04 */
__CPROVER_ensures(verif_thrown || *zone != 0 || zonein == -4 || isnan(xin) || isnan(yin) || zonein != zoneout || northpin == northpout)
/*@ clause post.other_zone src=header props=C04 */
/* a change of zone goes through geographic coordinates: the result is what Forward returned for the requested zone
   (MATCH = -3 keeps the input zone), with the northing moved to the requested hemisphere convention by exactly 10000 km */
__CPROVER_ensures(zonein == zoneout || verif_thrown ||
                  (g_UF_setzone == (zoneout == -3 ? zonein : zoneout) && *zone == g_UF_zone && VERIF_SAME_D(*xout, g_UF_x) &&
                   VERIF_SAME_D(*yout, (g_UF_northp != 0) == (northpout != 0) ? g_UF_y : g_UF_y + (northpout ? -10000000.0 : 10000000.0))))
