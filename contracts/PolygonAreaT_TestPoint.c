/* Contract of  unsigned PolygonAreaT<Geodesic>::TestPoint(real lat, real lon, bool reverse, bool sign, real& perimeter, real& area) const
 * Source: C08 "the tentative-vertex ... queries return exactly what adding that vertex ... and then computing would return, without
 * changing the polygon": the same two geodesics are asked (current -> new, new -> first), the same crossing total reaches the same
 * reduction with the same conventions (compare PolygonAreaT_AddPoint.c + PolygonAreaT_Compute.c); the object is not written (const). */
/*@ uses PolygonArea_common */
/*@ clause pre.invariant src=constructor */
__CPROVER_requires(PA_SMALL && PA_MASK_OK && self->_area0 >= 1.0 && self->_area0 <= 1e300)
/*@ clause frame src=property props=C08,C14 */
__CPROVER_assigns(*perimeter; !self->_polyline: *area; PA_GHOSTS_GI, PA_GHOSTS_AR)
/*@ clause post.count src=property props=C08 */
__CPROVER_ensures(__CPROVER_return_value == (self->_num == 0 ? 1U : self->_num + 1))
/*@ clause post.first src=property props=C08 */
__CPROVER_ensures(self->_num != 0 || (*perimeter == 0.0 && (self->_polyline || *area == 0.0) && g_GI_calls == 0 && g_AR_calls == 0))
/*@ clause post.new_edge src=property props=C08 */
__CPROVER_ensures(self->_num == 0 ||
   (g_GI_calls == (self->_polyline ? 1U : 2U) && VERIF_SAME_D(g_GI_lat1[0], self->_lat1) && VERIF_SAME_D(g_GI_lon1[0], self->_lon1) &&
    VERIF_SAME_D(g_GI_lat2[0], lat) && VERIF_SAME_D(g_GI_lon2[0], lon) && g_GI_mask[0] == self->_mask))
/*@ clause post.closing_edge src=property props=C08 */
__CPROVER_ensures(self->_num == 0 || self->_polyline ||
   (VERIF_SAME_D(g_GI_lat1[1], lat) && VERIF_SAME_D(g_GI_lon1[1], lon) && VERIF_SAME_D(g_GI_lat2[1], self->_lat0) && VERIF_SAME_D(g_GI_lon2[1], self->_lon0) &&
    g_GI_mask[1] == self->_mask))
/*@ clause post.perimeter src=property props=C08 */
__CPROVER_ensures(self->_num == 0 || !(PA_SMALLINT(self->_perimetersum._s) && PA_SMALLINT(g_GI_s12[0]) && (self->_polyline || PA_SMALLINT(g_GI_s12[1]))) ||
   *perimeter == self->_perimetersum._s + g_GI_s12[0] + (self->_polyline ? 0.0 : g_GI_s12[1]))
/*@ clause post.polyline_no_area src=property props=C08 */
__CPROVER_ensures(self->_num == 0 || !self->_polyline || g_AR_calls == 0)
/*@ clause post.area src=property props=C08 */
__CPROVER_ensures(self->_num == 0 || self->_polyline ||
   (g_AR_calls == 1 && (!(PA_SMALLINT(self->_areasum._s) && PA_SMALLINT(g_GI_S12[0]) && PA_SMALLINT(g_GI_S12[1])) || g_AR_in == self->_areasum._s + g_GI_S12[0] + g_GI_S12[1]) &&
    g_AR_crossings == self->_crossings + __CPROVER_uninterpreted_transit(self->_lon1, lon) + __CPROVER_uninterpreted_transit(lon, self->_lon0) &&
    g_AR_reverse == reverse && g_AR_sign == sign && VERIF_SAME_D(*area, 0.0 + g_AR_out)))
