/* Contract of  template<typename T> T Math::AngNormalize(T x)   (src/Math.cpp), T = double.
 * Source: C16 "angle normalisation returns an equivalent angle in [-180,180] that keeps the sign of
 * its argument at 0 and +/-180".  The ghost variables record, for callers that replace the call by
 * this contract, what was passed and returned, so that a caller's postcondition can say "the
 * longitude enters only through AngNormalize" (periodicity in 360 is then inherited, not assumed). */
/*@ ghost */
double __CPROVER_uninterpreted_AngNormalize(double);
#ifndef VERIF_ANGNORM_EXACT
#define VERIF_ANGNORM_EXACT 4503599627370496.0
#define VERIF_ANGNORM_WIDE double
#endif
double g_AngNormalize_arg, g_AngNormalize_ret; unsigned g_AngNormalize_calls;
/*@ ghost-init */
g_AngNormalize_calls = 0;
/*@ ghost */
/* spec: r is the IEEE remainder of x by 360 for |x| < 2^52, witnessed by the integer k */
/*@ clause frame src=property props=C14 only=enforce */
__CPROVER_assigns(vm_last_k)
/*@ clause frame.pure src=property only=replace-pure */
__CPROVER_assigns()
/*@ clause frame.ghost src=ghost only=replace-ghost */
__CPROVER_assigns(g_AngNormalize_arg, g_AngNormalize_ret, g_AngNormalize_calls)
/*@ clause post.ghost src=ghost only=replace-ghost */
__CPROVER_ensures(g_AngNormalize_calls == __CPROVER_old(g_AngNormalize_calls) + 1)
__CPROVER_ensures((g_AngNormalize_ret == __CPROVER_return_value || (isnan(g_AngNormalize_ret) && isnan(__CPROVER_return_value)))
                  && signbit(g_AngNormalize_ret) == signbit(__CPROVER_return_value))
__CPROVER_ensures((g_AngNormalize_arg == x || (isnan(g_AngNormalize_arg) && isnan(x))) && signbit(g_AngNormalize_arg) == signbit(x))
/*@ clause post.nan src=property props=C16,C13 */
__CPROVER_ensures(isnan(__CPROVER_return_value) == (isnan(x) || isinf(x)))
/*@ clause post.range src=property props=C16 */
__CPROVER_ensures(isnan(__CPROVER_return_value) || (-180.0 <= __CPROVER_return_value && __CPROVER_return_value <= 180.0))
/*@ clause post.identity src=property props=C16 */
__CPROVER_ensures(!(fabs(x) <= 180.0) || (__CPROVER_return_value == x && signbit(__CPROVER_return_value) == signbit(x)))
/*@ clause post.sign src=property props=C16 */
__CPROVER_ensures(!(__CPROVER_return_value == 0 || fabs(__CPROVER_return_value) == 180.0) || signbit(__CPROVER_return_value) == signbit(x))
/*@ clause post.equivalent src=property props=C16 only=enforce */
/* "an equivalent angle": for |x| < 2^52 the result differs from x by exactly 360 k for the integer k chosen by the
   (exact) remainder model, except that -180 may be returned as +180 or vice versa (sign of x) */
__CPROVER_ensures(!(fabs(x) < VERIF_ANGNORM_EXACT) ||
                  (x - 360.0 * (VERIF_ANGNORM_WIDE)vm_last_k == __CPROVER_return_value) ||
                  (fabs(__CPROVER_return_value) == 180.0 && fabs(x - 360.0 * (VERIF_ANGNORM_WIDE)vm_last_k) == 180.0))
/*@ clause post.deterministic src=frame only=replace */
/* for callers: the result is a function of the argument.  Sound because the enforced frame clause shows that the function
   reads and writes no state (a stateless C function is deterministic); it cannot itself be stated as an enforced clause. */
__CPROVER_ensures(VERIF_SAME_D(__CPROVER_return_value, __CPROVER_uninterpreted_AngNormalize(x)))
