/* ASSUMED contract of  void EllipticFunction::Reset(real k2, real alpha2, real kp2, real alphap2)  (src/EllipticFunction.cpp; numeric,
 * may throw for parameters out of range -- not modelled; C15 is not applicable).  Frame only: it writes its own object. */
/*@ clause frame src=assumed */
__CPROVER_requires(1)
__CPROVER_assigns(*self)
__CPROVER_ensures(1)
