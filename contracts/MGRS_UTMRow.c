/* Contract of  static int MGRS::UTMRow(int iband, int icol, int irow)   (src/MGRS.cpp)
 * Oracle: the table of 100 km rows that intersect each latitude band (NGA.SIG.0012_2.0.0_UTMUPS; reproduced
 * in the comment of the function) re-typed below, plus the four documented straddle cases where a row touches
 * a band only in some columns.  The function must return the unique row r == irow (mod 20) in the band's range,
 * or 100 (= maxutmSrow_) if there is none.  -- C05 */
/*@ ghost */
static const int utmrow_min[20] = { -90, -80, -71, -63, -54, -45, -36, -27, -18, -9, 0, 8, 17, 26, 35, 44, 53, 62, 71, 80 };
static const int utmrow_max[20] = { -81, -72, -63, -54, -45, -36, -27, -18, -9, -1, 8, 17, 26, 35, 44, 53, 62, 70, 79, 94 };
#define UR_SBAND (iband >= 0 ? iband : -iband - 1)
#define UR_SROW(r) ((r) >= 0 ? (r) : -(r) - 1)
#define UR_SCOL (icol < 4 ? icol : 7 - icol)
#define UR_SPECIAL(r) (((r) >= 0) == (iband >= 0) && ((UR_SROW(r) == 70 && UR_SBAND == 8 && UR_SCOL >= 2) || (UR_SROW(r) == 71 && UR_SBAND == 7 && UR_SCOL <= 2) || \
                       (UR_SROW(r) == 79 && UR_SBAND == 9 && UR_SCOL >= 1) || (UR_SROW(r) == 80 && UR_SBAND == 8 && UR_SCOL <= 1)))
#define UR_LEGAL(r) (((r) >= utmrow_min[iband + 10] && (r) <= utmrow_max[iband + 10]) || UR_SPECIAL(r))
/*@ clause pre.range src=call-site */
__CPROVER_requires(-10 <= iband && iband <= 9 && 0 <= icol && icol < 8 && 0 <= irow && irow < 20)
/*@ clause frame src=property props=C14 */
__CPROVER_assigns()
/*@ clause post.legal src=standard props=C05 */
__CPROVER_ensures(__CPROVER_return_value == 100 ||
                  (-90 <= __CPROVER_return_value && __CPROVER_return_value < 95 &&
                   (__CPROVER_return_value - irow) % 20 == 0 && UR_LEGAL(__CPROVER_return_value)))
/*@ clause post.complete src=standard props=C05 */
__CPROVER_ensures(__CPROVER_return_value != 100 ||
                  !(-5 <= verif_ghost_int && verif_ghost_int <= 4) ||
                  !(-90 <= irow + 20 * verif_ghost_int && irow + 20 * verif_ghost_int < 95) ||
                  !UR_LEGAL(irow + 20 * verif_ghost_int))
