/* Contract of  template<typename T> T Math::sum(T u, T v, T& t)   (src/Math.cpp)  -- the error-free transformation TwoSum.
 * Source: C16 "The error-free sum returns the rounded sum and its exact error".  For T = float the exact sum is
 * evaluated in binary64 (it fits whenever the exponents differ by less than 29; otherwise s, t are the larger and
 * the smaller operand).  Precondition |u|, |v| <= MAX/2: derived by the verifier -- without it s - v overflows
 * (u = -FLT_MAX, v = 1.9e32) and t is NaN; no caller reaches that (angles and areas are < 2^60). */
/*@ clause pre.finite src=derived */
__CPROVER_requires(isnan(u) || isnan(v) || (fabs(u) <= VERIF_SUM_MAX && fabs(v) <= VERIF_SUM_MAX))
/*@ clause frame src=property props=C14 */
__CPROVER_assigns(*t)
/*@ clause post.rounded_sum src=property props=C16 */
__CPROVER_ensures(isnan(u) || isnan(v) || __CPROVER_return_value == u + v)
/*@ clause post.exact_error src=property props=C16 */
__CPROVER_ensures(isnan(u) || isnan(v) || VERIF_SUM_EXACT(__CPROVER_return_value, *t, u, v))
/*@ clause post.zero_sign src=property props=C16 */
__CPROVER_ensures(isnan(u) || isnan(v) || __CPROVER_return_value != 0 || (*t == 0 && signbit(*t) == signbit(__CPROVER_return_value)))
/*@ clause post.nan src=property props=C13 */
__CPROVER_ensures(!(isnan(u) || isnan(v)) ? (!isnan(__CPROVER_return_value) && !isnan(*t)) : (isnan(__CPROVER_return_value) && isnan(*t)))
/*@ clause post.error_bound src=property props=C16 */
/* |t| <= ulp(s)/2 <= |s| * 2^-24 (float) resp. 2^-53 (double), and s itself is bounded by the operands */
__CPROVER_ensures(isnan(u) || isnan(v) || (fabs(*t) <= fabs(__CPROVER_return_value) * VERIF_SUM_EPS && fabs(__CPROVER_return_value) <= 2 * (fabs(u) > fabs(v) ? fabs(u) : fabs(v))))
/*@ clause post.absorbed src=property props=C16 */
/* consequence of s + t == u + v exactly and s == fl(u + v): adding the error back does not change s, i.e. |t| <= ulp(s)/2 */
__CPROVER_ensures(isnan(u) || isnan(v) || __CPROVER_return_value + *t == __CPROVER_return_value)
