/* ASSUMED contract of  static void SphericalEngine::RootTable(int N)   (src/SphericalEngine.cpp: grows the static table of square roots;
 * std::vector code outside the extraction).  Frame: its own static table only (a ghost stands for it). */
/*@ ghost */
int g_RootTable_N;
/*@ clause frame src=assumed */
__CPROVER_requires(1)
__CPROVER_assigns(g_RootTable_N)
__CPROVER_ensures(1)
