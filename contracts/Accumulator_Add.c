/* Contract of  void Accumulator<T>::Add(T y)   (include/GeographicLib/Accumulator.hpp, T = double; private, reached through
 * operator+= / operator-= / Sum / remainder).  Source: C16 (Accumulator), C08 (the polygon sums go through it).
 * Enforced on its own (job Accumulator.Add: frame = the two words of the accumulator; NaN in -> NaN sum; adding to an empty accumulator
 * stores the value).  For CALLERS the ghost record says which accumulator received which value, in call order, and the new state is a
 * deterministic function of the old state and y (so two equal histories give equal sums). */
/*@ ghost */
unsigned g_Acc_calls; const void *g_Acc_obj[4]; double g_Acc_y[4];
double __CPROVER_uninterpreted_Acc_s(double, double, double);
double __CPROVER_uninterpreted_Acc_t(double, double, double);
/*@ ghost-init */
g_Acc_calls = 0;
/*@ clause frame src=property props=C14 only=enforce */
__CPROVER_assigns(self->_s, self->_t)
/*@ clause frame.caller src=property only=replace-ghost */
__CPROVER_assigns(self->_s, self->_t, g_Acc_calls, __CPROVER_object_whole(g_Acc_obj), __CPROVER_object_whole(g_Acc_y))
/*@ clause frame.caller_pure src=property only=replace-pure */
__CPROVER_assigns(self->_s, self->_t)
/*@ clause post.ghost src=ghost only=replace-ghost */
/* slot number (calls so far) records this call; every other slot keeps its record */
#define ACC_SLOT(i) (__CPROVER_old(g_Acc_calls) == (i) ? (g_Acc_obj[i] == (const void *)self && VERIF_SAME_D(g_Acc_y[i], y)) \
                                                        : (g_Acc_obj[i] == __CPROVER_old(g_Acc_obj[i]) && VERIF_SAME_D(g_Acc_y[i], __CPROVER_old(g_Acc_y[i]))))
__CPROVER_ensures(g_Acc_calls == __CPROVER_old(g_Acc_calls) + 1 && ACC_SLOT(0) && ACC_SLOT(1) && ACC_SLOT(2) && ACC_SLOT(3))
/*@ clause post.deterministic src=purity only=replace */
__CPROVER_ensures(VERIF_SAME_D(self->_s, __CPROVER_uninterpreted_Acc_s(__CPROVER_old(self->_s), __CPROVER_old(self->_t), y)) &&
                  VERIF_SAME_D(self->_t, __CPROVER_uninterpreted_Acc_t(__CPROVER_old(self->_s), __CPROVER_old(self->_t), y)))
/*@ clause post.nan src=property props=C16,C13 */
__CPROVER_ensures(!(isnan(y) || isnan(__CPROVER_old(self->_s)) || isnan(__CPROVER_old(self->_t))) || isnan(self->_s))
/*@ clause post.empty src=property props=C16 */
/* adding to an empty accumulator (0, 0) stores the value exactly */
__CPROVER_ensures(!(__CPROVER_old(self->_s) == 0.0 && __CPROVER_old(self->_t) == 0.0 && !isnan(y) && !isinf(y) && y != 0.0) || (self->_s == y && self->_t == 0.0))
