/* Contract of  T Accumulator<T>::Sum(T y) const   (Accumulator.hpp; reached through operator()(T y)): the sum with y added, the
 * accumulator itself unchanged.  Enforced on its own (job Accumulator.Sum: writes nothing); for callers the result is a deterministic
 * function of the state and y, and the call is recorded. */
/*@ ghost */
unsigned g_AccSum_calls; const void *g_AccSum_obj; double g_AccSum_y, g_AccSum_ret;
double __CPROVER_uninterpreted_Acc_sum(double, double, double);
/*@ ghost-init */
g_AccSum_calls = 0;
/*@ clause frame src=property props=C14 only=enforce */
__CPROVER_assigns()
/*@ clause frame.caller src=property only=replace */
__CPROVER_assigns(g_AccSum_calls, g_AccSum_obj, g_AccSum_y, g_AccSum_ret)
/*@ clause post.ghost src=ghost only=replace */
__CPROVER_ensures(g_AccSum_calls == __CPROVER_old(g_AccSum_calls) + 1 && g_AccSum_obj == (const void *)self && VERIF_SAME_D(g_AccSum_y, y) &&
                  VERIF_SAME_D(g_AccSum_ret, __CPROVER_return_value))
/*@ clause post.deterministic src=purity only=replace */
__CPROVER_ensures(VERIF_SAME_D(__CPROVER_return_value, __CPROVER_uninterpreted_Acc_sum(self->_s, self->_t, y)))
/*@ clause post.nan src=property props=C16,C13 */
__CPROVER_ensures(!(isnan(y) || isnan(self->_s) || isnan(self->_t)) || isnan(__CPROVER_return_value))
