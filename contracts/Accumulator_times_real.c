/* Contract of  Accumulator& Accumulator<T>::operator*=(T y)   (Accumulator.hpp, T = double; not used inside the library).  Source: C16.
 * frame = the two words; NaN rule; value clauses on inputs where every product is exact, so that any correct fma gives the same bits
 * (fma is modelled unfused, see below; its rounding on inexact products is NOT relied on): both words are scaled by y, and the rounding error of
 * the leading product (zero here) is added to the trailing word. */
/*@ ghost */
/* fma model: rounded product, then rounded sum (NOT fused: equal to IEEE fma wherever the product is exact, which is all the value clauses below
 * use; the NaN and frame clauses do not depend on it).  cbmc's own library fma raises a feraiseexcept assertion on inf * 0. */
static inline double vm_fma(double x, double y, double z) { return x * y + z; }
#define fma(x, y, z) vm_fma(x, y, z)
/*@ clause frame src=property props=C14 */
__CPROVER_assigns(self->_s, self->_t)
/*@ clause post.returns_self src=property */
__CPROVER_ensures(__CPROVER_return_value == self)
/*@ clause post.nan src=property props=C16,C13 */
__CPROVER_ensures(!(isnan(y) || isnan(__CPROVER_old(self->_s))) || isnan(self->_s))
/*@ clause post.exact src=property props=C16 */
/* [s, t] *= y with s, t, y small dyadic numbers: result is exactly [s*y, t*y] */
__CPROVER_ensures(!(y == 4.0 && __CPROVER_old(self->_s) == 3.0 && __CPROVER_old(self->_t) == 0.5) || (self->_s == 12.0 && self->_t == 2.0))
__CPROVER_ensures(!(y == -0.5 && __CPROVER_old(self->_s) == 1024.0 && __CPROVER_old(self->_t) == -6.0) || (self->_s == -512.0 && self->_t == 3.0))
__CPROVER_ensures(!(y == 1.0 && !isnan(__CPROVER_old(self->_s)) && !isnan(__CPROVER_old(self->_t)) && !isinf(__CPROVER_old(self->_s)) && !isinf(__CPROVER_old(self->_t))) ||
                  (self->_s == __CPROVER_old(self->_s) && self->_t == __CPROVER_old(self->_t)))
