/* Contract of  void GeodesicLine::SetArc(real a13)   (src/GeodesicLine.cpp)
 * Source: C12: without the DISTANCE capability the stored distance of the third point stays NaN (the output is "left untouched"). */
/*@ clause pre.line src=LineInit */
__CPROVER_requires(!self->_exact && self->_f1 > 0.0 && !isinf(self->_f1) && self->tiny_ > 0.0)
/*@ clause frame src=property props=C12 */
__CPROVER_assigns(self->_s13, self->_a13)
/*@ clause post.arc_stored src=header props=C12 */
__CPROVER_ensures(VERIF_SAME_D(self->_a13, a13))
/*@ clause post.nan_without_capability src=property props=C12 */
__CPROVER_ensures(!(self->_caps == 0U || (self->_caps & 0xFF80U & DISTANCE) == 0U) || isnan(self->_s13))
