/* Contract of the constructor  TransverseMercator::TransverseMercator(real a, real f, real k0, bool exact, bool extendp)
 * (src/TransverseMercator.cpp).  Source: C13 "Constructors reject non-finite or out-of-range ellipsoid ... parameters with the
 * library's exception"; the Krueger coefficient tables are addressed inside their bounds (safety obligations of the body).
 * DROPPED by the job (stated in the evidence): the initialiser of the member object _tmexact (construction of the exact delegate,
 * another class); with exact = true the validation is that delegate's and is not decided here. */
/*@ clause pre.not_thrown src=call-site */
__CPROVER_requires(verif_thrown == 0)
/*@ clause frame src=property */
__CPROVER_assigns(self->_a, self->_f, self->_k0, self->_exact, self->_e2, self->_es, self->_e2m, self->_c, self->_n, self->_a1, self->_b1,
                  __CPROVER_object_upto(self->_alp, sizeof(self->_alp)), __CPROVER_object_upto(self->_bet, sizeof(self->_bet)), verif_thrown)
/*@ clause post.rejects src=property props=C13 */
__CPROVER_ensures(exact || ((verif_thrown != 0) == (!(isfinite(a) && a > 0.0 && isfinite(f) && f < 1.0 && isfinite(k0) && k0 > 0.0) || extendp)))
/*@ clause post.exact_delegates src=constructor props=C13 */
__CPROVER_ensures(!exact || !verif_thrown)
/*@ clause post.no_other_exception src=property props=C13 */
__CPROVER_ensures(!verif_thrown_other)
/*@ clause post.stores src=constructor props=C13 */
__CPROVER_ensures(verif_thrown || exact || (self->_a == a && self->_f == f && self->_k0 == k0 && !self->_exact))
