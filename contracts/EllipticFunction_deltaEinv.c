/* ASSUMED contract of  Math::real EllipticFunction::deltaEinv(...) const  (elliptic integrals: numeric, not verified -- C15 is not applicable).
 * Frame only: a const method of an immutable object writes nothing. */
/*@ clause frame src=assumed */
__CPROVER_assigns()
/*@ clause post.none src=assumed */
__CPROVER_requires(1)
__CPROVER_ensures(1)
