/* Contract of  void Geodesic::C4coeff()   (src/Geodesic.cpp; Maxima-generated coefficient table + evaluation loop)
 * Source: the function's own comment "Post condition: o == sizeof(coeff) / sizeof(real) && k == nC4x_" turned into a checked
 * postcondition (ghost capture at the end of the body, rule R21c): the evaluation loop consumes the table exactly and fills the member
 * array exactly -- C01 (series coefficient tables), C13 (every table read and array write in bounds).  The coefficient VALUES are not decided. */
/*@ capture-end cap_o=o:int cap_k=k:int cap_size=(int)(sizeof(coeff)/sizeof(coeff[0])):int */
/*@ clause frame src=code props=C13 only=enforce */
__CPROVER_assigns(__CPROVER_object_upto(self->_cC4x, sizeof(self->_cC4x)), cap_o, cap_k, cap_size)
/*@ clause frame.caller src=code only=replace */
/* what a caller sees: the member array only (the ghost captures are not the caller's business) */
__CPROVER_assigns(__CPROVER_object_upto(self->_cC4x, sizeof(self->_cC4x)))
/*@ clause post.table_consumed src=code-comment props=C01,C13 only=enforce */
__CPROVER_ensures(cap_o == cap_size && cap_k == nC4x_)
