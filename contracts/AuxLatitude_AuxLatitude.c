/* Contract of the constructor  AuxLatitude::AuxLatitude(real a, real f)   (src/AuxLatitude.cpp)
 * Source: C13 constructor validation; and the coefficient cache starts EMPTY (every slot NaN = "not yet computed"), which is what the
 * lazy fill in fillcoeff / Convert tests -- stated for an arbitrary slot (ghost index). */
/*@ clause pre.not_thrown src=call-site */
__CPROVER_requires(verif_thrown == 0)
/*@ clause frame src=property */
__CPROVER_assigns(*self, verif_thrown)
/*@ clause post.rejects_radius src=property props=C13 */
__CPROVER_ensures((isfinite(a) && a > 0.0) || verif_thrown)
/*@ clause post.rejects_flattening src=property props=C13 */
__CPROVER_ensures((isfinite(f) && f < 1.0) || verif_thrown)
/*@ clause post.rejects_iff src=code props=C13 */
__CPROVER_ensures((verif_thrown != 0) == !(isfinite(a) && a > 0.0 && isfinite(self->_b) && self->_b > 0.0))
/*@ clause post.accepts src=property props=C13 */
__CPROVER_ensures(!(1e-100 <= a && a <= 1e100 && -1e10 <= f && f <= 0.999999) || !verif_thrown)
/*@ clause post.no_other_exception src=property props=C13 */
__CPROVER_ensures(!verif_thrown_other)
/*@ clause post.cache_empty src=code props=C13,C14 */
__CPROVER_ensures(verif_thrown || verif_ghost_idx >= (size_t)(Lmax * AUXNUMBER * AUXNUMBER) || isnan(self->_c[verif_ghost_idx]))
