/* Contract of  template<typename T> T Math::atan2d(T y, T x)   (src/Math.cpp)
 * Source: C16 "two-argument arctangent in degrees ... in every quadrant with exact results on the axes" + C99 F.9.1.4.
 * libm's atan2 is the range-only model of shim/libm_models.h. */
/*@ clause frame src=property props=C14 */
__CPROVER_assigns()
/*@ clause post.nan src=property props=C13 */
__CPROVER_ensures(isnan(__CPROVER_return_value) == (isnan(x) || isnan(y)))
/*@ clause post.range src=property props=C16,C01 */
__CPROVER_ensures(isnan(__CPROVER_return_value) || (-180.0 <= __CPROVER_return_value && __CPROVER_return_value <= 180.0))
/*@ clause post.quadrant src=property props=C16 */
__CPROVER_ensures(isnan(__CPROVER_return_value) ||
   ((signbit(y) ? __CPROVER_return_value <= 0 : __CPROVER_return_value >= 0) && signbit(__CPROVER_return_value) == signbit(y) &&
    (signbit(x) ? fabs(__CPROVER_return_value) >= 90.0 : fabs(__CPROVER_return_value) <= 90.0)))
/*@ clause post.axes src=property props=C16 */
__CPROVER_ensures(isnan(x) || isnan(y) ||
   ((y != 0 || (fabs(__CPROVER_return_value) == (signbit(x) ? 180.0 : 0.0))) &&
    (x != 0 || y == 0 || fabs(__CPROVER_return_value) == 90.0)))
/*@ clause post.octant src=property props=C16 */
__CPROVER_ensures(isnan(x) || isnan(y) || isinf(x) || isinf(y) ||
   (fabs(y) > fabs(x) ? (fabs(__CPROVER_return_value) >= 45.0 - 1e-13 && fabs(__CPROVER_return_value) <= 135.0 + 1e-13)
                      : (fabs(__CPROVER_return_value) <= 45.0 + 1e-13 || fabs(__CPROVER_return_value) >= 135.0 - 1e-13)))
