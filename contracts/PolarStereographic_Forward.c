/* ASSUMED contract of  void PolarStereographic::Forward(bool northp, real lat, real lon, real& x, real& y, real& gamma, real& k) const
 * for the UPS singleton (body not verified: numeric). */
/*@ ghost */
double g_PS_x, g_PS_y, g_PS_gamma, g_PS_k; unsigned g_PS_calls; _Bool g_PS_northp;
/*@ ghost-init */
g_PS_calls = 0;
/*@ clause frame src=assumed */
__CPROVER_assigns(*x, *y, *gamma, *k, g_PS_x, g_PS_y, g_PS_gamma, g_PS_k, g_PS_calls, g_PS_northp)
/*@ clause post.ghost src=ghost */
__CPROVER_ensures(g_PS_calls == __CPROVER_old(g_PS_calls) + 1 && g_PS_northp == northp &&
                  VERIF_SAME_D(g_PS_x, *x) && VERIF_SAME_D(g_PS_y, *y) && VERIF_SAME_D(g_PS_gamma, *gamma) && VERIF_SAME_D(g_PS_k, *k))
/*@ clause post.finite src=assumed */
/* ASSUMED (not verified): for a finite position the projection returns numbers, not NaNs */
__CPROVER_ensures(isnan(lat) || isnan(lon) || isinf(lon) || fabs(lat) > 90.0 || (!isnan(*x) && !isnan(*y) && !isnan(*gamma) && !isnan(*k)))
