/* Contract of the constructor  LambertConformalConic::LambertConformalConic(real a, real f, real sinlat1, real coslat1, real sinlat2, real coslat2, real k1)
 * (standard parallels given by sine and cosine).  Source: C13 as LambertConformalConic_LambertConformalConic.c; header: "coslat1 and coslat2 must be non-negative",
 * the pairs must be usable as sine / cosine (|sin| <= 1, cos <= 1, not both zero), and a pole is only allowed for both parallels at once. */
/*@ ghost */
#define LC3_PAIR_OK(s, c) (!signbit(c) && fabs(s) <= 1.0 && (c) <= 1.0 && !((c) == 0.0 && (s) == 0.0))
/*@ clause pre.not_thrown src=call-site */
__CPROVER_requires(verif_thrown == 0)
/*@ clause frame src=property */
__CPROVER_assigns(*self, verif_thrown)
/*@ clause post.rejects src=property props=C13 */
__CPROVER_ensures((verif_thrown != 0) == !(isfinite(a) && a > 0.0 && isfinite(f) && f < 1.0 && isfinite(k1) && k1 > 0.0 &&
                  LC3_PAIR_OK(sinlat1, coslat1) && LC3_PAIR_OK(sinlat2, coslat2) &&
                  (!(coslat1 == 0.0 || coslat2 == 0.0) || (coslat1 == coslat2 && sinlat1 == sinlat2))))
/*@ clause post.no_other_exception src=property props=C13 */
__CPROVER_ensures(!verif_thrown_other)
