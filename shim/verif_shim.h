/* verif_shim.h -- the only hand-written C that every generated translation unit sees.
 *
 * It contains (a) the exception flag that replaces `throw GeographicErr(...)` (rule R7),
 * (b) the string view `vstr` that replaces std::string parameters (rules R13/R14),
 * (c) min/max/swap, (d) models of the libm functions the extracted code calls.
 * Everything in here is TRUSTED; every __CPROVER_assume below is listed in the evidence files
 * (the runner greps this file).  Nothing in here restates GeographicLib code.
 */
#ifndef VERIF_SHIM_H
#define VERIF_SHIM_H

#include <stddef.h>
#include <stdbool.h>
#include <limits.h>
#include <float.h>

#ifndef VERIF_STRCAP
#define VERIF_STRCAP 32
#endif

/* ------------------------------------------------------------------ exceptions (R7) */
extern int verif_thrown;        /* 1 after `throw GeographicErr(...)`            */
extern int verif_thrown_other;  /* 1 after a throw of any other type (C13)       */
#define VERIF_NAN (__builtin_nan(""))
#define VERIF_INF (__builtin_inf())

/* bitwise-style equality of doubles for "output unchanged" clauses: equal incl. sign of zero, or both NaN */
#define VERIF_SAME_D(a, b) (((a) == (b) && __builtin_signbit(a) == __builtin_signbit(b)) || (__builtin_isnan(a) && __builtin_isnan(b)))
#define VERIF_UP(c) ((char)verif_toupper(c))

/* ------------------------------------------------------------------ nondet */
double nondet_double(void);
float nondet_float(void);
int nondet_int(void);
unsigned nondet_unsigned(void);
long long nondet_longlong(void);
unsigned long long nondet_ulonglong(void);
char nondet_char(void);
_Bool nondet_bool(void);
size_t nondet_size_t(void);

/* ------------------------------------------------------------------ strings (R13, R14) */
/* A std::string is modelled as a buffer of capacity VERIF_STRCAP with an explicit length.
 * Embedded NULs are allowed (as in std::string).  p[len] == 0 is maintained, as std::string does. */
typedef struct vstr { char *p; int len; } vstr;
/* std::vector<real> / std::vector<int> data members (R17): pointer + ghost length */
typedef struct vvec_d { double *p; int n; } vvec_d;
typedef struct vvec_i { int *p; int n; } vvec_i;
#define VSTR_NPOS (~(size_t)0)

static inline size_t vstr_length(const vstr *s) { return (size_t)s->len; }
static inline size_t vstr_size(const vstr *s) { return (size_t)s->len; }
static inline _Bool vstr_empty(const vstr *s) { return s->len == 0; }
/* operator[] on a const std::string: index == size() is allowed and yields '\0' */
static inline char vstr_at(const vstr *s, size_t i) {
  __CPROVER_assert(i <= (size_t)s->len, "std::string operator[] index <= size()");
  return s->p[i];
}
/* std::string::resize: a negative int converts to a huge size_t and throws std::length_error */
static inline void vstr_resize(vstr *s, size_t n) {
  __CPROVER_assert(n < (size_t)VERIF_STRCAP, "std::string::resize within model capacity (negative sizes wrap to huge)");
  s->len = (int)n;
  s->p[n] = 0;
}
/* std::copy(src, src + n, s.begin()) after s.resize(n) */
static inline void vstr_copy_in(vstr *s, const char *src, long n) {
  __CPROVER_assert(n >= 0 && n <= s->len, "std::copy destination range inside the string");
  for (long i_ = 0; i_ < n; ++i_) s->p[i_] = src[i_];
}
/* s = "literal" */
static inline void vstr_set(vstr *s, const char *lit) {
  int n = 0;
  while (lit[n] != 0) { s->p[n] = lit[n]; ++n; }
  s->p[n] = 0; s->len = n;
}
/* membership of c in a NUL-terminated set (used by find_first_not_of); set is a short literal */
static inline _Bool vstr_in_set_(const char *set, char c) {
  for (int i_ = 0; set[i_] != 0; ++i_) if (set[i_] == c) return 1;
  return 0;
}
/* Ghost index: an arbitrary position fixed by the harness.  A stub that cannot state
 * "for all i" states its guarantee at this one arbitrary index instead. */
extern size_t verif_ghost_idx, verif_ghost_idx2, verif_ghost_idx3, verif_ghost_idx4;
extern int verif_ghost_int, verif_ghost_int2;
/* std::string::substr(pos, n) throws std::out_of_range -- not the library's exception -- when pos > size() */
static inline void vstr_substr_check(const vstr *s, size_t pos) {
  __CPROVER_assert(pos <= (size_t)s->len, "std::string::substr position <= size() (else std::out_of_range)");
}
/* istringstream >> real on a string of digits and at most one point: some non-negative number (TRUSTED: value not modelled) */
static inline double verif_parse_real(void) { double v = nondet_double(); __CPROVER_assume(v >= 0 && v <= 1e40); return v; }

/* std::string::find_first_not_of(const char* set, size_t pos): exact (loop bounded by the capacity) */
static inline size_t vstr_find_first_not_of(const vstr *s, const char *set, size_t pos) {
  for (size_t i_ = pos; i_ < (size_t)s->len; ++i_)
    if (!vstr_in_set_(set, s->p[i_])) return i_;
  return VSTR_NPOS;
}

/* ------------------------------------------------------------------ <cctype> in the C locale */
static inline int verif_toupper(int c) { return (c >= 'a' && c <= 'z') ? c - 'a' + 'A' : c; }
static inline int verif_tolower(int c) { return (c >= 'A' && c <= 'Z') ? c - 'A' + 'a' : c; }
static inline int verif_isdigit(int c) { return c >= '0' && c <= '9'; }
static inline int verif_isalpha(int c) { return (c >= 'a' && c <= 'z') || (c >= 'A' && c <= 'Z'); }
static inline int verif_isspace(int c) { return c == ' ' || (c >= '\t' && c <= '\r'); }
#define toupper verif_toupper
#define tolower verif_tolower
#define isdigit verif_isdigit
#define isalpha verif_isalpha
#define isspace verif_isspace

/* ------------------------------------------------------------------ <cstring> */
/* exact strchr / strlen (the CBMC library versions are avoided: see DESIGN section 2) */
static inline int verif_strlen(const char *s) { int n = 0; while (s[n] != 0) ++n; return n; }
static inline const char *verif_strchr(const char *s, int c) {
  for (int i_ = 0;; ++i_) {
    if (s[i_] == (char)c) return s + i_;
    if (s[i_] == 0) return (const char *)0;
  }
}
/* spec function: first index of c in the NUL-terminated s, -1 if absent (the terminator is not a member) */
static inline int verif_index_of(const char *s, char c) {
  for (int i_ = 0; s[i_] != 0; ++i_) if (s[i_] == c) return i_;
  return -1;
}
#define strchr verif_strchr
#define strlen verif_strlen

/* ------------------------------------------------------------------ min / max / swap (R10) */
static inline int vmin_i(int a, int b) { return b < a ? b : a; }
static inline int vmax_i(int a, int b) { return a < b ? b : a; }
static inline unsigned vmin_u(unsigned a, unsigned b) { return b < a ? b : a; }
static inline unsigned vmax_u(unsigned a, unsigned b) { return a < b ? b : a; }
static inline long long vmin_ll(long long a, long long b) { return b < a ? b : a; }
static inline long long vmax_ll(long long a, long long b) { return a < b ? b : a; }
static inline double vmin_d(double a, double b) { return b < a ? b : a; }   /* std::min semantics (NaN-preserving in a) */
static inline double vmax_d(double a, double b) { return a < b ? b : a; }
static inline float vmin_f(float a, float b) { return b < a ? b : a; }
static inline float vmax_f(float a, float b) { return a < b ? b : a; }
#define min(a, b) _Generic((a) + (b), int: vmin_i, unsigned: vmin_u, long long: vmin_ll, double: vmin_d, float: vmin_f)(a, b)
#define max(a, b) _Generic((a) + (b), int: vmax_i, unsigned: vmax_u, long long: vmax_ll, double: vmax_d, float: vmax_f)(a, b)
#define VERIF_COPY(dst, src, n) do { for (unsigned copy_i_ = 0; copy_i_ < (unsigned)(n); ++copy_i_) (dst)[copy_i_] = (src)[copy_i_]; } while (0)
#define VERIF_FILL(first, last, v) do { for (__typeof__(first) fill_p_ = (first); fill_p_ < (last); ++fill_p_) *fill_p_ = (v); } while (0)
#define swap(a, b) do { __typeof__(a) swap_t_ = (a); (a) = (b); (b) = swap_t_; } while (0)

/* ------------------------------------------------------------------ libm: exact builtins */
double floor(double); double ceil(double); float floorf(float);
double copysign(double, double); float copysignf(float, float);
/* exact |x| without library or builtin calls (those have no body when they occur only in contract clauses) */
static inline double verif_fabs(double x) { return (x < 0 || (x == 0 && __builtin_signbit(x) != 0)) ? -x : x; }
static inline float verif_fabsf(float x) { return (x < 0 || (x == 0 && __builtin_signbit(x) != 0)) ? -x : x; }
#define fabs(x)       _Generic((x), float: verif_fabsf, default: verif_fabs)(x)   /* usable in contract clauses */
#define copysign(a,b) _Generic((a) + (b), float: copysignf, default: copysign)(a, b)
#define floor(x)      _Generic((x), float: floorf, default: floor)(x)
#define signbit(x)    (__builtin_signbit(x) != 0)
#define isnan(x)      (__builtin_isnan(x) != 0)
#define isfinite(x)   (!isnan(x) && !isinf(x))   /* __builtin_isfinite is not usable under goto-instrument --dfcc */
#define isinf(x)      (__builtin_isinf(x) != 0)

/* ------------------------------------------------------------------ libm: models (see shim/libm_models.h) */
#include "libm_models.h"

#endif
