/* libm_models.h -- TRUSTED models of the <cmath> functions called by extracted code.
 *
 * Two kinds:
 *  (E) exact models (remainder / remquo by 360 and 90, ldexp, pow(10,k), sqrt of 1/2 and 3):
 *      the IEEE/glibc result is pinned exactly.  tests/libm_conformance.c compiles these natively
 *      (nondet_* replaced by a search) and compares them with glibc.
 *  (R) range-only models of transcendental functions: an uninterpreted (hence deterministic)
 *      function of the argument, constrained only by range / sign / special-value facts.
 *      Nothing about accuracy is assumed, so nothing about accuracy can be proved.
 */
#ifndef VERIF_LIBM_MODELS_H
#define VERIF_LIBM_MODELS_H

/* ---------------------------------------------------------------- (E) remainder / remquo */
#define VM_TWO52 4503599627370496.0
#define VM_TWO23F 8388608.0f

/* Common core: for finite |x| < 2^52 and y in {720, 360, 90} (k*y is then exact in binary64 because
 * y = 45 * 2^4, 45 * 2^3 resp. 45 * 2 and |k| < 2^44), the IEEE remainder r = x - k*y is exactly
 * representable, so  fl(x - (double)k * y) == r  pins it, k being the integer nearest x/y with
 * ties to even.  Outside that domain only |r| <= y/2 and the NaN rules are given. */
/* ghost: the integer quotient chosen by the last remainder/remquo evaluation (witness for "differs by a multiple of y") */
extern long long vm_last_k;
#ifndef VM_REM_UF_DEFINED
double __CPROVER_uninterpreted_vm_rem_r(double, double);
long long __CPROVER_uninterpreted_vm_rem_k(double, double);
float __CPROVER_uninterpreted_vm_rem_rf(float, float);
long long __CPROVER_uninterpreted_vm_rem_kf(float, float);
#endif
static inline double vm_remquo_core(double x, double y, long long *kout) {
  /* deterministic: the same arguments give the same result also where only the range is constrained */
  double r = __CPROVER_uninterpreted_vm_rem_r(x, y);
  long long k = __CPROVER_uninterpreted_vm_rem_k(x, y);
  if (isnan(x) || isnan(y) || isinf(x) || y == 0) { *kout = 0; return VERIF_NAN; }
  if (isinf(y)) { *kout = 0; return x; }
  double ay = fabs(y);
  if ((ay == 360.0 || ay == 90.0 || ay == 720.0) && fabs(x) < VM_TWO52) {
    __CPROVER_assume(k > -(1LL << 46) && k < (1LL << 46));
    __CPROVER_assume(x - (double)k * ay == r);
    __CPROVER_assume(fabs(r) <= ay / 2);
    __CPROVER_assume(fabs(r) != ay / 2 || (k & 1) == 0);
    if (r == 0) r = copysign(0.0, x);
    *kout = y < 0 ? -k : k;
    return r;
  }
  __CPROVER_assume(!isnan(r) && fabs(r) <= ay / 2 && fabs(r) <= fabs(x));
  __CPROVER_assume(fabs(x) > ay / 2 || r == x);
  if (r == 0) r = copysign(0.0, x);
  __CPROVER_assume(k > -(1LL << 62) && k < (1LL << 62));
  *kout = k;
  return r;
}
static inline double vm_remainder(double x, double y) { long long k; double r = vm_remquo_core(x, y, &k); vm_last_k = k; return r; }
static inline double vm_remquo(double x, double y, int *q) {
  long long k; double r = vm_remquo_core(x, y, &k);
  vm_last_k = k;
  *q = (int)(k % 8);   /* sign of x/y, magnitude congruent mod 8 to |k| (C99 7.12.10.3, glibc) */
  return r;
}
static inline float vm_remquo_coref(float x, float y, long long *kout) {
  float r = __CPROVER_uninterpreted_vm_rem_rf(x, y);
  long long k = __CPROVER_uninterpreted_vm_rem_kf(x, y);
  if (isnan(x) || isnan(y) || isinf(x) || y == 0) { *kout = 0; return (float)VERIF_NAN; }
  if (isinf(y)) { *kout = 0; return x; }
  float ay = verif_fabsf(y);
  if ((ay == 360.0f || ay == 90.0f) && verif_fabsf(x) < VM_TWO23F) {
    /* in binary64 the product k*ay and the difference are exact for |x| < 2^23 */
    __CPROVER_assume(k > -(1LL << 20) && k < (1LL << 20));
    __CPROVER_assume((double)x - (double)k * (double)ay == (double)r);
    __CPROVER_assume(verif_fabsf(r) <= ay / 2);
    __CPROVER_assume(verif_fabsf(r) != ay / 2 || (k & 1) == 0);
    if (r == 0) r = copysignf(0.0f, x);
    *kout = y < 0 ? -k : k;
    return r;
  }
  __CPROVER_assume(!isnan(r) && verif_fabsf(r) <= ay / 2 && verif_fabsf(r) <= verif_fabsf(x));
  __CPROVER_assume(verif_fabsf(x) > ay / 2 || r == x);
  if (r == 0) r = copysignf(0.0f, x);
  __CPROVER_assume(k > -(1LL << 62) && k < (1LL << 62));
  *kout = k;
  return r;
}
static inline float vm_remainderf(float x, float y) { long long k; float r = vm_remquo_coref(x, y, &k); vm_last_k = k; return r; }
static inline float vm_remquof(float x, float y, int *q) {
  long long k; float r = vm_remquo_coref(x, y, &k);
  vm_last_k = k;
  *q = (int)(k % 8);
  return r;
}
#define remainder(x, y) _Generic((x) + (y), float: vm_remainderf, default: vm_remainder)(x, y)
#define remquo(x, y, q) _Generic((x) + (y), float: vm_remquof, default: vm_remquo)(x, y, q)

/* ---------------------------------------------------------------- (E) ldexp, pow(10,k), special sqrt */
static inline double vm_ldexp(double x, int e) {
  if (e >= -1022 && e <= 1023) {
    union { unsigned long long u; double d; } p;
    p.u = (unsigned long long)(e + 1023) << 52;     /* exactly 2^e, a normal number */
    return x * p.d;                                  /* one rounding, as ldexp */
  }
  return nondet_double();
}
#define ldexp(x, e) vm_ldexp(x, e)

double __CPROVER_uninterpreted_vm_pow(double, double);
static inline double vm_pow(double b, double e) {
  if (b == 10.0) {           /* glibc pow is exact whenever the result is representable */
    if (e == 0) return 1e0;  if (e == 1) return 1e1;  if (e == 2) return 1e2;  if (e == 3) return 1e3;
    if (e == 4) return 1e4;  if (e == 5) return 1e5;  if (e == 6) return 1e6;  if (e == 7) return 1e7;
    if (e == 8) return 1e8;  if (e == 9) return 1e9;  if (e == 10) return 1e10; if (e == 11) return 1e11;
    if (e == 12) return 1e12; if (e == 13) return 1e13; if (e == 14) return 1e14; if (e == 15) return 1e15;
  }
  return __CPROVER_uninterpreted_vm_pow(b, e);
}
#define pow(b, e) vm_pow(b, e)

double __CPROVER_uninterpreted_vm_sqrt(double);
static inline double vm_sqrt(double x) {
  if (isnan(x) || x < 0) return VERIF_NAN;
  if (x == 0) return x;                       /* sqrt(+-0) = +-0 */
  if (x == 1.0) return 1.0;
  if (x == 0.5) return 0x1.6a09e667f3bcdp-1;  /* correctly rounded (IEEE requires it) */
  if (x == 3.0) return 0x1.bb67ae8584caap+0;
  if (isinf(x)) return x;
  double r = __CPROVER_uninterpreted_vm_sqrt(x);
  __CPROVER_assume(r > 0 && !isinf(r));
  __CPROVER_assume(x < 1.0 ? (r >= x && r < 1.0) : (r <= x && r > 1.0)); /* sqrt lies between x and 1 */
  return r;
}
float __CPROVER_uninterpreted_vm_sqrtf(float);
static inline float vm_sqrtf(float x) {
  if (isnan(x) || x < 0) return (float)VERIF_NAN;
  if (x == 0) return x;
  if (x == 1.0f) return 1.0f;
  if (x == 0.5f) return 0x1.6a09e6p-1f;
  if (x == 3.0f) return 0x1.bb67aep+0f;
  if (isinf(x)) return x;
  float r = __CPROVER_uninterpreted_vm_sqrtf(x);
  __CPROVER_assume(r > 0 && !isinf(r));
  __CPROVER_assume(x < 1.0f ? (r >= x && r < 1.0f) : (r <= x && r > 1.0f));
  return r;
}
#define sqrt(x) _Generic((x), float: vm_sqrtf, default: vm_sqrt)(x)

/* ---------------------------------------------------------------- (R) range-only models */
#define VM_PI 3.14159265358979323846
#define VM_QUARTER_PI_UP 0.7853981633974484   /* > pi/4 */
double __CPROVER_uninterpreted_vm_sin(double);
double __CPROVER_uninterpreted_vm_cos(double);
double __CPROVER_uninterpreted_vm_atan2(double, double);
float __CPROVER_uninterpreted_vm_sinf(float);
float __CPROVER_uninterpreted_vm_cosf(float);
float __CPROVER_uninterpreted_vm_atan2f(float, float);

static inline double vm_sin(double x) {
  if (isnan(x) || isinf(x)) return VERIF_NAN;
  if (x == 0) return x;                                   /* sin(+-0) = +-0 */
  double r = __CPROVER_uninterpreted_vm_sin(x);
  __CPROVER_assume(r >= -1 && r <= 1);
  if (fabs(x) <= VM_QUARTER_PI_UP) {                      /* first octant: sign, |sin x| <= |x|, <= sqrt(1/2)+ */
    __CPROVER_assume(r != 0 && signbit(r) == signbit(x));
    __CPROVER_assume(fabs(r) <= fabs(x) && fabs(r) <= 0.7071067811865477);
  }
  return r;
}
static inline double vm_cos(double x) {
  if (isnan(x) || isinf(x)) return VERIF_NAN;
  if (x == 0) return 1.0;
  double r = __CPROVER_uninterpreted_vm_cos(x);
  __CPROVER_assume(r >= -1 && r <= 1);
  if (fabs(x) <= VM_QUARTER_PI_UP)
    __CPROVER_assume(r >= 0.7071067811865474);
  return r;
}
static inline float vm_sinf(float x) {
  if (isnan(x) || isinf(x)) return (float)VERIF_NAN;
  if (x == 0) return x;
  float r = __CPROVER_uninterpreted_vm_sinf(x);
  __CPROVER_assume(r >= -1 && r <= 1);
  if (verif_fabsf(x) <= 0.78539824f) {
    __CPROVER_assume(r != 0 && signbit(r) == signbit(x));
    __CPROVER_assume(verif_fabsf(r) <= verif_fabsf(x) && verif_fabsf(r) <= 0.70710689f);
  }
  return r;
}
static inline float vm_cosf(float x) {
  if (isnan(x) || isinf(x)) return (float)VERIF_NAN;
  if (x == 0) return 1.0f;
  float r = __CPROVER_uninterpreted_vm_cosf(x);
  __CPROVER_assume(r >= -1 && r <= 1);
  if (verif_fabsf(x) <= 0.78539824f)
    __CPROVER_assume(r >= 0.70710666f);
  return r;
}
#define sin(x) _Generic((x), float: vm_sinf, default: vm_sin)(x)
#define cos(x) _Generic((x), float: vm_cosf, default: vm_cos)(x)

/* atan2: C99 F.9.1.4 special values, plus |result| <= pi and, in the octant 0 <= |y| <= x that
 * Math::atan2d reduces to, |result| <= pi/4 (+1 ulp of slack) with the sign of y. */
static inline double vm_atan2(double y, double x) {
  if (isnan(x) || isnan(y)) return VERIF_NAN;
  if (y == 0) {
    if (x > 0 || (x == 0 && !signbit(x))) return y;              /* +-0 */
    return copysign(VM_PI, y);                                    /* x < 0 or x == -0 */
  }
  double r = __CPROVER_uninterpreted_vm_atan2(y, x);
  __CPROVER_assume(!isnan(r) && fabs(r) <= VM_PI && signbit(r) == signbit(y));
  if (x == 0) __CPROVER_assume(fabs(r) == VM_PI / 2);
  if (x >= 0 && fabs(y) <= x && !isinf(y)) __CPROVER_assume(fabs(r) <= VM_QUARTER_PI_UP);
  if (x >= 0 && fabs(y) == x) __CPROVER_assume(fabs(r) == VM_PI / 4);  /* incl. inf/inf: pi/4 */
  if (x > 0 && isinf(x) && !isinf(y)) __CPROVER_assume(r == copysign(0.0, y));
  return r;
}
#define VM_PIF 3.14159274f
static inline float vm_atan2f(float y, float x) {
  if (isnan(x) || isnan(y)) return (float)VERIF_NAN;
  if (y == 0) {
    if (x > 0 || (x == 0 && !signbit(x))) return y;
    return copysignf(VM_PIF, y);
  }
  float r = __CPROVER_uninterpreted_vm_atan2f(y, x);
  __CPROVER_assume(!isnan(r) && verif_fabsf(r) <= VM_PIF && signbit(r) == signbit(y));
  if (x == 0) __CPROVER_assume(verif_fabsf(r) == VM_PIF / 2);
  if (x >= 0 && verif_fabsf(y) <= x && !isinf(y)) __CPROVER_assume(verif_fabsf(r) <= 0.78539824f);
  if (x >= 0 && verif_fabsf(y) == x) __CPROVER_assume(verif_fabsf(r) == VM_PIF / 4);
  if (x > 0 && isinf(x) && !isinf(y)) __CPROVER_assume(r == copysignf(0.0f, y));
  return r;
}
#define atan2(y, x) _Generic((y) + (x), float: vm_atan2f, default: vm_atan2)(y, x)

/* hypot: non-negative, >= both magnitudes, inf if either is inf, else NaN if either is NaN */
double __CPROVER_uninterpreted_vm_hypot(double, double);
static inline double vm_hypot(double a, double b) {
  if (isinf(a) || isinf(b)) return VERIF_INF;
  if (isnan(a) || isnan(b)) return VERIF_NAN;
  if (a == 0) return fabs(b);
  if (b == 0) return fabs(a);
  double r = __CPROVER_uninterpreted_vm_hypot(a, b);
  __CPROVER_assume(!isnan(r) && r >= fabs(a) && r >= fabs(b));
  __CPROVER_assume(r <= (fabs(a) + fabs(b)) * 1.0000000000000009);   /* hypot <= |a| + |b| (4 ulp of slack for libm's error) */
  return r;
}
#define hypot(a, b) vm_hypot(a, b)

/* Remaining transcendental functions: deterministic, NaN in => NaN out, nothing else. */
#define VM_UNARY(name) \
  double __CPROVER_uninterpreted_vm_##name(double); \
  static inline double vm_##name(double x) { if (isnan(x)) return VERIF_NAN; return __CPROVER_uninterpreted_vm_##name(x); }
VM_UNARY(atan) VM_UNARY(atanh) VM_UNARY(asinh) VM_UNARY(sinh) VM_UNARY(cosh) VM_UNARY(tanh)
VM_UNARY(exp) VM_UNARY(log) VM_UNARY(log1p) VM_UNARY(expm1) VM_UNARY(tan) VM_UNARY(cbrt) VM_UNARY(asin) VM_UNARY(acos) VM_UNARY(exp2) VM_UNARY(log2)
#define atan(x) vm_atan(x)
#define atanh(x) vm_atanh(x)
#define asinh(x) vm_asinh(x)
#define sinh(x) vm_sinh(x)
#define cosh(x) vm_cosh(x)
#define tanh(x) vm_tanh(x)
#define exp(x) vm_exp(x)
#define log(x) vm_log(x)
#define log1p(x) vm_log1p(x)
#define expm1(x) vm_expm1(x)
#define tan(x) vm_tan(x)
#define cbrt(x) vm_cbrt(x)
#define asin(x) vm_asin(x)
#define acos(x) vm_acos(x)
#define exp2(x) vm_exp2(x)
#define log2(x) vm_log2(x)
/* fmax/fmin: IEEE (NaN-ignoring) */
static inline double vm_fmax(double a, double b) { return isnan(a) ? b : isnan(b) ? a : (a < b ? b : a); }
static inline double vm_fmin(double a, double b) { return isnan(a) ? b : isnan(b) ? a : (b < a ? b : a); }
#define fmax(a, b) vm_fmax(a, b)
#define fmin(a, b) vm_fmin(a, b)
double __CPROVER_uninterpreted_vm_fmod(double, double);
static inline double vm_fmod(double a, double b) {
  if (isnan(a) || isnan(b) || isinf(a) || b == 0) return VERIF_NAN;
  if (isinf(b)) return a;
  double r = __CPROVER_uninterpreted_vm_fmod(a, b);
  __CPROVER_assume(!isnan(r) && fabs(r) < fabs(b) && fabs(r) <= fabs(a) && (r == 0 || signbit(r) == signbit(a)));
  return r;
}
#define fmod(a, b) vm_fmod(a, b)

#endif
