/-
  CoeffIndex.lean -- bridging lemmas for C19 (DESIGN.md section 3.7).
  cbmc proves that SphericalEngine::coeff::index(n, m) returns the integer
      slot N n m = m * N - m * (m - 1) / 2 + n          (no overflow for N ≤ 32767)
  and that Csize(N, M) = (M + 1) * (2 * N - M + 2) / 2.
  The two facts below are pure integer arithmetic that SAT solvers do not finish (32-bit non-linear):
    * the slot of every (n, m) with m ≤ M ≤ N, m ≤ n ≤ N lies inside a vector of Csize(N, M) entries;
    * the slot function is injective on the triangle.
  They are stated over ℕ with the division-free forms  2 * slot = 2*m*N - m*(m-1) + 2*n  (m*(m-1) is even).
-/
import Mathlib.Tactic

/-- twice the slot (avoids the division by two) -/
def slot2 (N n m : ℕ) : ℕ := 2 * m * N + m + 2 * n - m * m

/-- twice the number of cosine coefficients for maximum degree N and order M -/
def csize2 (N M : ℕ) : ℕ := (M + 1) * (2 * N + 2 - M)

theorem slot_lt_csize (N M n m : ℕ) (hmM : m ≤ M) (hMN : M ≤ N) (_hmn : m ≤ n) (hnN : n ≤ N) :
    slot2 N n m < csize2 N M := by
  unfold slot2 csize2
  have h1 : m * m ≤ 2 * m * N + m + 2 * n := by nlinarith
  -- work in ℤ
  zify [h1, show M ≤ 2 * N + 2 by omega]
  nlinarith [Nat.zero_le m, Nat.zero_le n, hmM, hMN, hnN,
             mul_le_mul hmM hMN (Nat.zero_le M) (Nat.zero_le M)]

theorem slot_injective (N n m n' m' : ℕ) (hmn : m ≤ n) (hnN : n ≤ N) (hmn' : m' ≤ n') (hnN' : n' ≤ N)
    (h : slot2 N n m = slot2 N n' m') : m = m' ∧ n = n' := by
  unfold slot2 at h
  have h1 : m * m ≤ 2 * m * N + m + 2 * n := by nlinarith
  have h2 : m' * m' ≤ 2 * m' * N + m' + 2 * n' := by nlinarith
  zify [h1, h2] at h
  rcases Nat.lt_trichotomy m m' with hlt | heq | hgt
  · exfalso
    have : (m : ℤ) + 1 ≤ m' := by exact_mod_cast hlt
    nlinarith [hmn, hnN, hmn', hnN']
  · subst heq
    constructor
    · rfl
    · have : (2 : ℤ) * n = 2 * n' := by linarith
      exact_mod_cast (by linarith : (n : ℤ) = n')
  · exfalso
    have : (m' : ℤ) + 1 ≤ m := by exact_mod_cast hgt
    nlinarith [hmn, hnN, hmn', hnN']
