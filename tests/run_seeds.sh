#!/bin/bash
# Regression of the machinery against the stored seeded changes: applies each seeded/<name>/patch.diff to /repo (git apply), runs the
# check of its property, records the verdict lines, and undoes the change (git checkout).  Never run concurrently with another check.
# usage: tests/run_seeds.sh [name-glob]
cd /verif
git -C /repo diff --quiet || { echo "/repo has local changes: refusing"; exit 9; }
for d in seeded/${1:-*}/; do
  n=$(basename $d); prop=$(python3 -c "import json;print(json.load(open('$d/meta.json'))['property'])")
  git -C /repo apply /verif/$d/patch.diff || { echo "$n: patch does not apply"; continue; }
  ./check $prop > /tmp/seedrun_$n.out 2>&1; rc=$?
  git -C /repo checkout -- .
  { echo "exit=$rc"; grep -E "^VIOLATION|^UNDECIDED|failed obligation" /tmp/seedrun_$n.out | head -12; } > $d/last_check.txt
  echo "$n: exit=$rc $(grep -c '^VIOLATION' /tmp/seedrun_$n.out) violation line(s), $(grep '^VIOLATION' /tmp/seedrun_$n.out | grep -vc no-failing-input-found) replayed natively"
  rm -f /tmp/seedrun_$n.out
done
