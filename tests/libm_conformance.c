/* libm_conformance.c -- native conformance test of shim/libm_models.h against glibc (run by setup.sh).
 * The models choose their results with nondet_*() constrained by __CPROVER_assume(); here nondet_*() returns what
 * glibc computes and every assumption is checked instead: a failed assumption means the model EXCLUDES glibc's
 * behaviour (which would make proofs vacuous / unsound).  The model's return value must equal glibc's bit for bit. */
#include <math.h>
#include <stdio.h>
#include <stdlib.h>
#include <string.h>
#include <float.h>
#include <stddef.h>
static long failures, checks;
static double want_d; static float want_f; static long long want_k;
#define __CPROVER_assume(c) do { ++checks; if (!(c)) { ++failures; if (failures < 10) fprintf(stderr, "assumption violated: %s (line %d)\n", #c, __LINE__); } } while (0)
static double nondet_double(void) { return want_d; }
static float nondet_float(void) { return want_f; }
static long long nondet_longlong(void) { return want_k; }
#define VERIF_NAN (__builtin_nan(""))
#define VERIF_INF (__builtin_inf())
static double verif_fabs(double x) { return fabs(x); }
static float verif_fabsf(float x) { return fabsf(x); }
static double g_fabs(double x) { return fabs(x); }
static double g_copysign(double a, double b) { return copysign(a, b); }
static float g_copysignf(float a, float b) { return copysignf(a, b); }
#undef isnan
#undef isinf
#undef signbit
#define isnan(x) (__builtin_isnan(x) != 0)
#define isinf(x) (__builtin_isinf(x) != 0)
#define signbit(x) (__builtin_signbit(x) != 0)
/* uninterpreted functions := glibc */
static double __CPROVER_uninterpreted_vm_rem_r(double x, double y) { (void)x; (void)y; return want_d; }
static long long __CPROVER_uninterpreted_vm_rem_k(double x, double y) { (void)x; (void)y; return want_k; }
static float __CPROVER_uninterpreted_vm_rem_rf(float x, float y) { (void)x; (void)y; return want_f; }
static long long __CPROVER_uninterpreted_vm_rem_kf(float x, float y) { (void)x; (void)y; return want_k; }
#define VM_REM_UF_DEFINED 1
#define __CPROVER_uninterpreted_vm_pow(b, e) (pow)(b, e)
#define __CPROVER_uninterpreted_vm_sqrt(x) (sqrt)(x)
#define __CPROVER_uninterpreted_vm_sqrtf(x) (sqrtf)(x)
#define __CPROVER_uninterpreted_vm_sin(x) (sin)(x)
#define __CPROVER_uninterpreted_vm_cos(x) (cos)(x)
#define __CPROVER_uninterpreted_vm_sinf(x) (sinf)(x)
#define __CPROVER_uninterpreted_vm_cosf(x) (cosf)(x)
#define __CPROVER_uninterpreted_vm_atan2(y, x) (atan2)(y, x)
#define __CPROVER_uninterpreted_vm_atan2f(y, x) (atan2f)(y, x)
#define __CPROVER_uninterpreted_vm_hypot(a, b) (hypot)(a, b)
#define __CPROVER_uninterpreted_vm_fmod(a, b) (fmod)(a, b)
#define VM_UNARY_NATIVE(n) static double __CPROVER_uninterpreted_vm_##n(double x) { return (n)(x); }
VM_UNARY_NATIVE(atan) VM_UNARY_NATIVE(atanh) VM_UNARY_NATIVE(asinh) VM_UNARY_NATIVE(sinh) VM_UNARY_NATIVE(cosh) VM_UNARY_NATIVE(tanh)
VM_UNARY_NATIVE(exp) VM_UNARY_NATIVE(log) VM_UNARY_NATIVE(log1p) VM_UNARY_NATIVE(expm1) VM_UNARY_NATIVE(tan) VM_UNARY_NATIVE(cbrt)
VM_UNARY_NATIVE(asin) VM_UNARY_NATIVE(acos) VM_UNARY_NATIVE(exp2) VM_UNARY_NATIVE(log2)
long long vm_last_k;
#define CONFORMANCE_NATIVE 1
/* the model file uses these names as macros over its own functions; keep glibc reachable through (name) */
#include "../shim/libm_models.h"
#undef remainder
#undef remquo
#undef sqrt
#undef sin
#undef cos
#undef atan2
#undef hypot
#undef ldexp
#undef pow

static int same(double a, double b) { return (a == b && signbit(a) == signbit(b)) || (isnan(a) && isnan(b)); }
static int samef(float a, float b) { return (a == b && signbit(a) == signbit(b)) || (isnan(a) && isnan(b)); }
static unsigned long long rs = 88172645463325252ULL;
static unsigned long long rnd(void) { rs ^= rs << 13; rs ^= rs >> 7; rs ^= rs << 17; return rs; }
static double rnd_double(void) { unsigned long long u = rnd(); double d; memcpy(&d, &u, 8); return d; }
static long mismatches;
static void check_rem(double x, double y) {
  int q = 0; double r = (remquo)(x, y, &q);
  double ay = fabs(y);
  want_d = r;
  /* the integer quotient: exact for the domain in which the model is exact */
  if ((ay == 360.0 || ay == 90.0 || ay == 720.0) && fabs(x) < 4503599627370496.0 && !isnan(r)) want_k = llround((x - r) / ay); else want_k = q;
  int mq = 0; double m = vm_remquo(x, y, &mq);
  if (!same(m, r)) { if (++mismatches < 10) fprintf(stderr, "remquo(%a,%a): model %a glibc %a\n", x, y, m, r); }
  if ((ay == 360.0 || ay == 90.0 || ay == 720.0) && fabs(x) < 4503599627370496.0 && !isnan(r) && ((mq - q) & 7) != 0 && !(y < 0)) { if (++mismatches < 10) fprintf(stderr, "remquo(%a,%a): quotient bits model %d glibc %d\n", x, y, mq, q); }
  want_d = (remainder)(x, y);
  if (!same(vm_remainder(x, y), want_d)) ++mismatches;
}
int main(int argc, char **argv) {
  if (argc > 1) rs ^= strtoull(argv[1], 0, 10) * 0x9E3779B97F4A7C15ULL;
  double specials[] = { 0.0, -0.0, 1.0, -1.0, 45.0, -45.0, 90.0, 135.0, 180.0, -180.0, 225.0, 270.0, 360.0, 540.0, -540.0, 1e15, -1e15, 4503599627370495.5,
                        4503599627370496.0, 1e300, INFINITY, -INFINITY, NAN, DBL_MIN, -DBL_MIN, 4.9e-324, -4.9e-324, 179.99999999999997, 180.00000000000003, 30.0, 60.0, 150.0 };
  int ns = sizeof specials / sizeof specials[0];
  for (int i = 0; i < ns; ++i) { check_rem(specials[i], 360.0); check_rem(specials[i], 90.0); check_rem(specials[i], 720.0); }
  for (long i = 0; i < 1000000; ++i) {
    double x = rnd_double();
    check_rem(x, 360.0); check_rem(x, 90.0); check_rem(x, 720.0);
    double z = ((double)(long long)(rnd() % 2000000001ULL) - 1e9) / 1024.0;   /* moderate magnitudes, many exact ties */
    check_rem(z, 360.0); check_rem(z, 90.0); check_rem(z, 720.0); check_rem(360.0 * (double)((long long)(rnd() % 20001) - 10000), 720.0); check_rem(45.0 * (double)((long long)(rnd() % 200001) - 100000), 90.0);
  }
  /* range-only models: glibc must satisfy every stated fact */
  for (long i = 0; i < 300000; ++i) {
    double x = rnd_double(), y = rnd_double();
    double t = ((double)(rnd() % 2000001) - 1e6) / 1e6;      /* [-1, 1] */
    if (!same(vm_sin(t * 0.785398163397448), (sin)(t * 0.785398163397448))) ++mismatches;
    if (!same(vm_cos(t * 0.785398163397448), (cos)(t * 0.785398163397448))) ++mismatches;
    if (!same(vm_sin(x), (sin)(x)) || !same(vm_cos(x), (cos)(x))) ++mismatches;
    if (!same(vm_atan2(y, x), (atan2)(y, x))) ++mismatches;
    double ax = fabs(t) * 1e3 + 1e-3; if (!same(vm_atan2(t * ax, ax), (atan2)(t * ax, ax))) ++mismatches;
    if (!same(vm_hypot(x, y), (hypot)(x, y))) ++mismatches;
    if (!same(vm_sqrt(x), (sqrt)(x)) || !same(vm_sqrt(fabs(t)), (sqrt)(fabs(t)))) ++mismatches;
    if (!same(vm_fmod(x, y), (fmod)(x, y))) ++mismatches;
  }
  for (int i = 0; i < ns; ++i) for (int j = 0; j < ns; ++j) {
    if (!same(vm_atan2(specials[i], specials[j]), (atan2)(specials[i], specials[j]))) { ++mismatches; fprintf(stderr, "atan2(%g,%g)\n", specials[i], specials[j]); }
    if (!same(vm_hypot(specials[i], specials[j]), (hypot)(specials[i], specials[j]))) ++mismatches;
  }
  for (int k = 0; k <= 15; ++k) if (!same(vm_pow(10.0, (double)k), (pow)(10.0, (double)k))) { ++mismatches; fprintf(stderr, "pow(10,%d)\n", k); }
  for (int e = -1022; e <= 1023; ++e) if (!same(vm_ldexp(1.0, e), (ldexp)(1.0, e)) || !same(vm_ldexp(0.7, e), (ldexp)(0.7, e))) { ++mismatches; fprintf(stderr, "ldexp(.,%d)\n", e); }
  if (!same(vm_sqrt(0.5), (sqrt)(0.5)) || !same(vm_sqrt(3.0), (sqrt)(3.0)) || !samef(vm_sqrtf(0.5f), sqrtf(0.5f)) || !samef(vm_sqrtf(3.0f), sqrtf(3.0f))) ++mismatches;
  printf("libm conformance: %ld assumption evaluations, %ld violated, %ld result mismatches\n", checks, failures, mismatches);
  return (failures || mismatches) ? 1 : 0;
}
