"""manifest.py -- write MANIFEST.json from the property table in jobs.py (python3 -m vlib.manifest)"""
import json, os
from . import jobs, tu


def main():
    checks = []
    for pid in sorted(jobs.PROPS):
        m = jobs.PROPS[pid]
        checks.append(dict(
            property_id=pid,
            quick_cmd='./check %s --tier quick' % pid,
            thorough_cmd='./check %s --tier thorough' % pid,
            evidence_file='evidence/%s.json' % pid,
            replay_cmd_template='./check %s --replay {path}' % pid,
            engine='cbmc-contracts',
            level_claimed=dict(category=m.get('level', 'proof'), text=m['level_text'], design_ref=m.get('design_ref', 'DESIGN.md section 5')),
            level_note=m['level_note'],
            technique=m.get('technique', 'contract-based deductive verification: CBMC code contracts (goto-instrument --dfcc) on mechanically extracted functions'),
        ))
    na = [dict(property_id=k, reason=v) for k, v in sorted(jobs.NOT_APPLICABLE.items()) if k not in jobs.PROPS]
    man = dict(
        version=1,
        setup_cmd='./setup.sh',
        hooks=dict(guard='GEOGRAPHICLIB_VERIF', enable='no hooks are compiled into /repo: contracts live in /verif/contracts and are spliced into functions extracted from the working tree on every run',
                   baseline_off_cmd='ctest --test-dir /repo/_build -j8 --timeout 900', source_commits=jobs.SOURCE_COMMITS, add_only=True),
        engines=[dict(name='cbmc-contracts', path='check', serves_properties=sorted(jobs.PROPS),
                      kind_free_text='extractor (vlib/cxx2c.py) + goto-cc + goto-instrument --dfcc --enforce-contract + cbmc; native ASan/UBSan replay of counterexamples')],
        checks=checks,
        not_applicable=na,
        notes='Exit 0 = all obligations discharged; exit 1 = VIOLATION lines; exit 2 = undecided (timeout / tool or extraction failure), never reported as a violation. In the thorough tier a job that exhausts its time budget (at most one hour) is printed as NOT-DECIDED, listed under undecided in the evidence, and does not change the exit status. See DESIGN.md.',
    )
    with open(os.path.join(tu.VERIF, 'MANIFEST.json'), 'w') as f:
        json.dump(man, f, indent=1)
    print('MANIFEST.json: %d checks, %d not_applicable' % (len(checks), len(na)))


if __name__ == '__main__':
    main()
