"""evidence.py -- /verif/evidence/<id>.json, rewritten by every run from what the run actually did."""
import os, json, re
from . import tu, jobs

VERIF = tu.VERIF


def scan_assumes():
    """every __CPROVER_assume in the shim / contracts: the complete list of assumptions the proofs rest on"""
    out = []
    for d in ('shim', 'contracts'):
        dd = os.path.join(VERIF, d)
        for fn in sorted(os.listdir(dd)):
            n = 0
            for line in open(os.path.join(dd, fn)):
                if '__CPROVER_assume' in line:
                    n += 1
            if n:
                out.append('%s/%s: %d __CPROVER_assume statement(s) (model of a library function or harness input constraint)' % (d, fn, n))
    return out


def write(prop, tier, seed, results, violations, known_hits, undecided, wall):
    meta = jobs.PROPS.get(prop, {})
    enforced = set()
    for j in jobs.JOBS:
        if not j.lemma:
            enforced.add(j.cname)
    functions = []
    n_ob = n_dis = 0
    samples = []
    cmds = []
    trusted_callees = set()
    bounded = []
    kf_regions = []
    for r in results:
        if '#kf' in r['job']:
            # the sub-job restricted to a known finding's input pattern: its obligations are reported apart
            kf_regions.append(dict(job=r['job'], obligations=r.get('n_obligations', 0), discharged=r.get('n_discharged', 0)))
        else:
            n_ob += r.get('n_obligations', 0)
            n_dis += r.get('n_discharged', 0)
        fn = dict(job=r['job'], function=r['func'], status=r['status'], obligations=r.get('n_obligations', 0),
                  discharged=r.get('n_discharged', 0), backend=r.get('backend'), solver_s=r.get('solver_s'),
                  canary_reached=r.get('canary_ok'), reused_from_cache=bool(r.get('cached')), source=r.get('metas'), extraction_rules=r.get('rules'),
                  dropped_by_extraction=(r.get('dropped') or [])[:12], tu_sha256=r.get('tu_sha256'))
        if r.get('diag'):
            fn['diagnostic'] = r['diag'][:600]
        if r.get('vacuity'):
            # per base job (recorded on its first sub-job): call sites of replaced callees that return on some input / source lines reachable
            fn['vacuity_guards'] = r['vacuity']
        clauses = {}
        for o in r.get('obligations', []):
            if o.get('clause'):
                c = clauses.setdefault(o['clause'], dict(n=0, ok=0))
                c['n'] += 1
                c['ok'] += o['status'] == 'SUCCESS'
        fn['contract_clauses'] = {k: '%d/%d' % (v['ok'], v['n']) for k, v in sorted(clauses.items())}
        functions.append(fn)
        if r.get('checker_cmd') and len(cmds) < 2:
            cmds.append(r['checker_cmd'])
        for o in r.get('obligations', [])[:400]:
            if len(samples) < 6 and o.get('clause') and not o.get('canary'):
                samples.append(dict(job=r['job'], obligation=o['id'], clause=o['clause'], text=o['desc'], status=o['status'],
                                    at='%s:%s' % (o['file'], o['line'])))
        for o in r.get('obligations', []):
            if len(samples) < 10 and not o.get('clause') and not o.get('canary') and o['file'].startswith('/repo'):
                samples.append(dict(job=r['job'], obligation=o['id'], text=o['desc'], status=o['status'], at='%s:%s' % (o['file'], o['line'])))
                break
        m = re.search(r'replace-call-with-contract', r.get('instrument_cmd', '') or '')
        for c in re.findall(r'--replace-call-with-contract (\S+)', r.get('instrument_cmd', '') or ''):
            if c not in enforced:
                trusted_callees.add(c)
        j = r.get('jobobj')
    trusted = list(jobs.TRUSTED_BASE)
    for c in sorted(trusted_callees):
        trusted.append('callee %s replaced by an ASSUMED contract (contracts/%s.c): its body is not verified' % (c, c))
    trusted += meta.get('trusted', [])
    level = meta.get('level', 'proof')
    cov = dict(obligations=n_ob, discharged=n_dis,
               checker_cmd=' ;; '.join(cmds) if cmds else 'n/a',
               trusted_base=trusted, samples=samples, functions_under_contract=functions,
               functions_count=len(set(r['func'] for r in results)),
               solver_seconds_total=round(sum(r.get('solver_s', 0) or 0 for r in results), 1),
               bounded_standins=meta.get('bounded', []), clauses_not_decided=meta.get('not_decided', []),
               known_finding_regions=kf_regions,
               known_findings=[dict(job=r['job'], obligation=f.get('clause') or f['desc'], what=h['what']) for r, f, h in known_hits],
               undecided=[dict(job=r['job'], why=r['diag'][:300]) for r in undecided],
               explanation=meta.get('explanation', ''))
    ev = dict(property_id=prop, tier=tier, seed=seed, level=level, coverage=cov,
              assumptions=scan_assumes() + meta.get('assumptions', []), wall_s=round(wall, 2), violations=len(violations))
    os.makedirs(os.path.join(VERIF, 'evidence'), exist_ok=True)
    with open(os.path.join(VERIF, 'evidence', prop + '.json'), 'w') as f:
        json.dump(ev, f, indent=1)
