"""runner.py -- build TUs, run goto-cc / goto-instrument --dfcc / cbmc, map results to clause ids."""
import os, re, json, subprocess, time, shutil, tempfile, resource, hashlib
from concurrent.futures import ThreadPoolExecutor
from . import cxx2c as X
from . import tu as T
from .cxx2c import ExtractError

VERIF = T.VERIF
OUT = os.path.join(VERIF, 'out')

NONDET = {'double': 'nondet_double()', 'float': 'nondet_float()', 'int': 'nondet_int()', '_Bool': 'nondet_bool()',
          'unsigned': 'nondet_unsigned()', 'char': 'nondet_char()', 'long long': 'nondet_longlong()',
          'unsigned long long': 'nondet_ulonglong()', 'size_t': 'nondet_size_t()', 'long': '(long)nondet_longlong()'}

PRELUDE = r'''
#define VERIF_STRCAP %(strcap)d
#include "verif_shim.h"
#define GEOGRAPHICLIB_WORDS_BIGENDIAN 0
%(ppdefs)s
int verif_thrown;
int verif_thrown_other;
size_t verif_ghost_idx, verif_ghost_idx2, verif_ghost_idx3, verif_ghost_idx4;
int verif_ghost_int, verif_ghost_int2;
long long vm_last_k;
#define VERIF_THROW(r) verif_thrown = 1; return r
#define VERIF_THROW_OTHER(r) verif_thrown_other = 1; return r
#define VERIF_PROPAGATE(r) if (verif_thrown || verif_thrown_other) return r
struct vbuf { char c[VERIF_STRCAP]; };
struct vbuf nondet_vbuf(void);
'''


PPDEFS = '\n'.join('#define %s %d' % (k, v) for k, v in sorted(X.PP_DEFINES.items()) if k.startswith('GEOGRAPHICLIB_') and k not in ('GEOGRAPHICLIB_WORDS_BIGENDIAN', 'GEOGRAPHICLIB_DATA'))


class Job:
    def __init__(self, name, func, props, replace=(), inline=(), const_classes=(), select=None, real='double',
                 unwind=None, strcap=32, timeout=None, tier='quick', cname=None, may_throw=None, srcrel=None,
                 extra_cflags=(), cbmc_flags=(), no_checks=False, stubs=(), self_const=None, arity=None,
                 inline_select=None, object_bits=None, lemma=False, defines=(), variant_of=None, kf=None,
                 description='', cases=None, case=None, replay_ghost=(), replay_domain=None, variants=None, unwindset=None, assume=None, contract_name=None, sat=None, exclude_clauses=(), harness=None, enforce=True, lean=None, rewrites=None, extra_replace=(), require=(), structs=(), allow_unreachable=()):
        self.allow_unreachable = list(allow_unreachable)   # regexes of source lines that are legitimately unreachable under the contract's precondition (each with its reason in the job description)
        self.structs = list(structs)   # classes whose data members the (rewritten) body or the contract names directly: their struct is generated from the header
        self.extra_replace = list(extra_replace)   # cnames of contract-only functions declared by hand in the contract file's ghost section (operators of helper classes the rewrites call)
        self.require = list(require)   # [(repo-relative file, regex)]: source text the job's rewrites rely on (e.g. `T operator()() const { return _s; }`); missing -> extraction break, never a verdict
        self.rewrites = rewrites   # [(regex, replacement)] applied to the C++ text first (rule R16: stream / container accesses become stub calls); each must apply
        self.lean = lean   # path (relative to /verif) of a Lean 4 file of pure integer bridging lemmas (DESIGN 3.7)
        self.enforce = enforce   # False: the extracted body is used as is inside a relational lemma harness (DFCC allows one enforced call only)
        self.harness = harness   # name of a /*@ harness-alt <name> */ section: a relational lemma harness around the function under contract
        self.exclude_clauses = tuple(exclude_clauses)   # clause ids left to another (slower) job of the same function
        self.sat = sat   # None = minisat2 (cbmc default), or 'cadical'
        self.assume = assume   # (C condition over harness inputs, justification): the job covers only these inputs
        self.contract_name = contract_name
        self.unwindset = unwindset
        self.variants = variants   # list of (label, [defines]): the clause set is split over sub-jobs (same inputs)
        self.replay_domain = replay_domain
        self.replay_ghost = list(replay_ghost)
        self.name, self.func, self.props = name, func, set(props)
        self.replace, self.inline, self.const_classes = list(replace), list(inline), list(const_classes)
        self.select, self.real, self.unwind, self.strcap = select, real, unwind, strcap
        self.timeout, self.tier = timeout, tier
        self.cname = cname or ((func.replace('::', '_') + ('_f' if real == 'float' else '')) if func else name.replace('.', '_'))
        self.may_throw, self.srcrel = may_throw, srcrel
        self.extra_cflags, self.cbmc_flags = list(extra_cflags), list(cbmc_flags)
        self.no_checks, self.stubs, self.self_const, self.arity = no_checks, list(stubs), self_const, arity
        self.inline_select = inline_select or {}
        self.object_bits, self.lemma, self.defines = object_bits, lemma, list(defines)
        self.variant_of, self.kf, self.description = variant_of, kf, description
        self.case_cover = None
        self.cases, self.case = cases, case   # cases: list of (label, C condition over the harness inputs in_*)


# callee descriptor: 'Class::name' or ('Class::name', {options})
def _callee(spec):
    if isinstance(spec, str):
        return spec, {}
    return spec[0], dict(spec[1])


def nondet_for(ctype):
    ct = ctype.strip()
    if ct in NONDET:
        return NONDET[ct]
    raise ExtractError('no nondet generator for type %r' % ctype)


def gen_harness(job, fi, contract):
    if getattr(job, 'harness', None):
        h = contract.alt_harness.get(job.harness)
        if h is None:
            raise ExtractError('%s: no /*@ harness-alt %s */ section' % (contract.path, job.harness))
        return ('#line %d "%s"\n' % (h[1], contract.path)) + '\n'.join(h[2])
    if contract.harness is not None:
        return ('#line %d "%s"\n' % (contract.harness[1], contract.path)) + '\n'.join(contract.harness[2])
    L = ['void h_%s(void) {' % fi.cname, '  VERIF_GHOST_INIT', '  verif_ghost_idx = nondet_size_t(); verif_ghost_idx2 = nondet_size_t(); verif_ghost_idx3 = nondet_size_t(); verif_ghost_idx4 = nondet_size_t(); verif_ghost_int = nondet_int(); verif_ghost_int2 = nondet_int();']
    args = []
    if fi.is_method:
        L.append('  struct %s nondet_struct_%s(void);' % (fi.cls, fi.cls))
        L.append('  struct %s in_self = nondet_struct_%s();' % (fi.cls, fi.cls))
        args.append('&in_self')
    for p in fi.params:
        n = 'in_' + p.name
        if p.kind == 'val':
            L.append('  %s %s = %s;' % (p.ctype, n, nondet_for(p.ctype)))
            args.append(n)
        elif p.kind == 'ref':
            bt = p.ctype.rstrip('* ').strip()
            L.append('  %s %s = %s;' % (bt, n, nondet_for(bt)))
            args.append('&' + n)
        elif p.kind in ('str_in', 'str_out'):
            # a plain char array (not a struct member): dereferences stay array reads instead of byte extracts
            L.append('  char %s_buf[VERIF_STRCAP]; for (int i_ = 0; i_ < VERIF_STRCAP; ++i_) %s_buf[i_] = nondet_char();' % (n, n))
            L.append('  vstr %s; %s.p = %s_buf; %s.len = nondet_int();' % (n, n, n, n))
            L.append('  __CPROVER_assume(0 <= %s.len && %s.len < VERIF_STRCAP); %s_buf[%s.len] = 0;' % (n, n, n, n))
            args.append('&' + n)
        elif p.kind == 'array' and not p.ctype.startswith('const'):
            # an output array that C++ callers may omit (NULL): both cases are explored
            dim = p.array.strip('[]').strip() or '16'
            bt = p.ctype.strip()
            L.append('  %s %s[%s]; for (int i_ = 0; i_ < (int)(%s); ++i_) %s[i_] = %s;' % (bt, n, dim, dim, n, nondet_for(bt)))
            L.append('  %s *%s_ptr = nondet_bool() ? %s : (%s *)0;' % (bt, n, n, bt))
            args.append(n + '_ptr')
        elif p.kind == 'obj_in' and p.ctype.replace('const', '').replace('*', '').strip() == 'vvec_d':
            # const std::vector<real>& : a (pointer, length) view; the length is arbitrary, the data an arbitrary small buffer (contracts that read
            # elements state their own r_ok preconditions)
            L.append('  static double %s_data[4]; vvec_d %s; %s.p = %s_data; %s.n = nondet_int();' % (n, n, n, n, n))
            args.append('&' + n)
        elif p.kind == 'obj_in' and p.ctype.replace('const', '').replace('*', '').strip().startswith('struct '):
            # const Class& : an arbitrary object of that class (its invariant, where needed, is a precondition of the contract)
            st = p.ctype.replace('const', '').replace('*', '').strip()
            L.append('  %s nondet_%s(void);' % (st, st.replace(' ', '_')))
            L.append('  %s %s = nondet_%s();' % (st, n, st.replace(' ', '_')))
            args.append('&' + n)
        else:
            raise ExtractError('%s: parameter %s of kind %s needs a hand-written /*@ harness */' % (fi.cname, p.name, p.kind))
    if contract.harness_pre is not None:
        L.append('#line %d "%s"' % (contract.harness_pre[1], contract.path))
        L.extend(contract.harness_pre[2])
    if getattr(job, 'assume', None):
        L.append('  __CPROVER_assume(%s); /* job restricted to these inputs: %s */' % job.assume)
    if getattr(job, 'extra_assume', None):
        L.append('  __CPROVER_assume(%s); /* known-finding split, see known_findings.txt */' % job.extra_assume)
    if job.case is not None:
        L.append('  __CPROVER_assume(%s); /* case %s of an exhaustive split (exhaustiveness is its own obligation) */' % (job.case[1], job.case[0]))
    if job.case_cover is not None:
        L.append('  __CPROVER_assert(%s, "case split is exhaustive");' % ' || '.join('(%s)' % c for _, c in job.case_cover))
        L.append('  __CPROVER_assert(0, "canary: end of harness reachable");')
        L.append('  return;')
    L.append('  verif_thrown = 0; verif_thrown_other = 0;')
    call = '%s(%s);' % (fi.cname, ', '.join(args))
    if fi.ret_ctype != 'void':
        call = '%s ret_ = %s' % (fi.ret_ctype, call)
    L.append('  ' + call)
    if contract.harness_post is not None:
        L.append('#line %d "%s"' % (contract.harness_post[1], contract.path))
        L.extend(contract.harness_post[2])
    L.append('  __CPROVER_assert(0, "canary: end of harness reachable");')
    L.append('}')
    return '\n'.join(L)


def build_tu(proj, job):
    """returns dict(text=..., entry=..., cname=..., replace_cnames=[...], meta=...)"""
    report = X.Report()
    real = job.real
    if job.lemma:
        return build_lemma_tu(proj, job, report)
    cls = job.func.split('::')[0]
    fi = T.funcinfo(proj, job.func, job.cname, real, job.select, job.may_throw, job.arity)
    functable = {}
    callee_infos = []
    inline_infos = []
    for spec in job.replace:
        q, opt = _callee(spec)
        cfi = T.funcinfo(proj, q, opt.get('cname'), real, opt.get('select'), opt.get('may_throw', False), opt.get('arity'))
        if opt.get('static'):
            cfi.is_method = False   # called on a library singleton (R19b): the object is dropped, the contract is for that instance
        cfi.replaced = True   # its call sites get a vacuity canary (rule R6.call_site_canary)
        functable.setdefault(q, []).append(cfi)
        callee_infos.append((cfi, opt))
    for spec in job.inline:
        q, opt = _callee(spec)
        cfi = T.funcinfo(proj, q, opt.get('cname'), real, opt.get('select'), opt.get('may_throw', False), opt.get('arity'))
        functable.setdefault(q, []).append(cfi)
        inline_infos.append((cfi, opt))
    # small Math helpers are always inlined when the text mentions them (extracted by the same rules)
    have = set(functable)
    pending = [job.func] + [q for q in functable]
    raw_texts = []
    def mentions(q):
        c, n = q.split('::')
        try:
            if c == cls or True:
                fi0 = T.funcinfo(proj, q, None, real, (dict(_callee(sp)[1]).get('select') if False else None))
        except Exception:
            return ''
        return ''
    scan = [(_callee(sp)[0], _callee(sp)[1]) for sp in job.inline]
    texts = [T.raw_def_text(proj, job.func, job.select, job.srcrel)]
    for q, opt in scan:
        texts.append(T.raw_def_text(proj, q, opt.get('select'), opt.get('srcrel')))
    changed = True
    while changed:
        changed = False
        for h in AUTO_INLINE:
            if h in functable:
                continue
            short = h.split('::')[1]
            if any(re.search(r'\b(?:Math::)?%s\s*(?:<[^>]*>)?\s*\(' % short, t) for t in texts if t):
                opt = dict(AUTO_INLINE[h])
                cfi = T.funcinfo(proj, h, opt.get('cname'), real, opt.get('select'), False, opt.get('arity'))
                functable.setdefault(h, []).append(cfi)
                inline_infos.insert(0, (cfi, opt))
                texts.append(T.raw_def_text(proj, h, opt.get('select'), opt.get('srcrel')))
                changed = True
    # order helpers so that callees come before callers
    inline_infos.sort(key=lambda t: AUTO_ORDER.index(t[0].qualname) if t[0].qualname in AUTO_ORDER else 99)
    # the function itself (recursion / overload siblings are not in the table unless listed)
    contract = T.Contract(T.contract_path(job.contract_name or (job.name if job.lemma else fi.cname)))
    parts = [PRELUDE % dict(strcap=job.strcap, ppdefs=PPDEFS)]
    # constants: Math always, own class, extra classes
    seen = set()
    # const_classes entries starting with '<' are emitted before the function's own class (its constants use them)
    order = ['Math'] + [c[1:] for c in job.const_classes if c.startswith('<')] + ['@own'] + [c for c in job.const_classes if not c.startswith('<')]
    for c in order:
        if c == '@own':
            parts.append(T.emit_constants(proj, cls, own=True, real=real, report=report))
        elif c != cls and c not in seen:
            parts.append(T.emit_constants(proj, c, own=False, real=real, report=report))
            seen.add(c)
    # structs
    need_struct = set()
    if fi.is_method:
        need_struct.add(cls)
    for cfi, _ in callee_infos + inline_infos:
        if cfi.is_method:
            need_struct.add(cfi.cls)
    for p_ in fi.params:
        if p_.kind in ('obj_in', 'obj_out') and 'struct ' in p_.ctype:
            need_struct.add(p_.ctype.replace('const', '').replace('*', '').replace('struct', '').strip())
    need_struct.update(getattr(job, 'structs', ()))
    opaque = set()
    for c in sorted(need_struct):
        for t in T.member_class_types(proj, c, real):
            if t not in need_struct:
                opaque.add(t)
    for t in sorted(opaque):
        parts.append('struct %s { int verif_opaque_; };   /* data member of class type: contents not modelled */' % t)
    # a struct that embeds another must come after it
    order = sorted(need_struct, key=lambda c: len([t for t in T.member_class_types(proj, c, real) if t in need_struct]))
    for c in order:
        parts.append(T.emit_struct(proj, c, real, own_cls=cls))
    parts.append(T.capture_decls(contract))
    cap_declared = set(T.capture_decls(contract).split('\n'))
    ghost_done = set()
    ghost_inits = []

    def emit_ghost_of(cc):
        out = []
        key = os.path.abspath(cc.path)
        if key in ghost_done:
            return ''
        ghost_done.add(key)
        for u in cc.uses:
            out.append(emit_ghost_of(T.Contract(T.contract_path(u))))
        out.append(cc.emit_ghost())
        if cc.ghost_init:
            ghost_inits.append(' '.join(l.strip() for l in cc.ghost_init[2]))
        return '\n'.join(out)
    own_ghost_later = True
    # callee contracts
    replace_cnames = []
    callee_contracts = []
    trusted = []
    for cfi, opt in callee_infos:
        cc = T.Contract(T.contract_path(cfi.cname))
        if not cc.clauses:
            raise ExtractError('no contract file for replaced callee %s (%s)' % (cfi.cname, cc.path))
        parts.append(emit_ghost_of(cc))
        # ghost captures named in the callee's contract (frame / postconditions) must exist in the caller's translation unit too
        for dl in T.capture_decls(cc).split('\n'):
            if dl and dl not in cap_declared:
                cap_declared.add(dl)
                parts.append(dl)
        parts.append(T.callee_decl(cfi, cc, ghost=opt.get('ghost', True)))
        callee_contracts.append(cc)
        replace_cnames.append(cfi.cname)
    for xc in getattr(job, 'extra_replace', ()):
        cc = T.Contract(T.contract_path(xc))
        if cc.prototype is None or not cc.clauses:
            raise ExtractError('extra_replace %s: contracts/%s.c needs a /*@ prototype */ section and clauses' % (xc, xc))
        parts.append(emit_ghost_of(cc))
        parts.append(('#line %d "%s"\n' % (cc.prototype[1], cc.path)) + '\n'.join(cc.prototype[2]) + '\n' + cc.emit_clauses(mode='replace-ghost') + '\n;')
        callee_contracts.append(cc)
    parts.append(emit_ghost_of(contract))
    # inlined helper bodies (extracted by the same rules); prototypes first, so that their order does not matter
    metas = []
    for cfi, opt in inline_infos:
        parts.append('static inline ' + cfi.proto() + ';')
    for cfi, opt in inline_infos:
        ex = T.extract_function(proj, cfi, functable, real, opt.get('srcrel'), opt.get('select'), report,
                                contract=None, static_inline=True, own_cls=cls)
        parts.append(ex.text)
        metas.append(dict(function=cfi.qualname, role='inlined helper', file=ex.srcrel, lines=list(ex.lines), sha256=ex.sha))
    # the function under contract
    if not getattr(job, 'enforce', True):
        # body without contract clauses (ghost captures / loop contracts of the contract file still apply)
        import copy as _copy
        c2 = _copy.copy(contract)
        c2.clauses = []
        ex = T.extract_function(proj, fi, functable, real, job.srcrel, job.select, report, contract=c2)
    else:
        ex = T.extract_function(proj, fi, functable, real, job.srcrel, job.select, report, contract=contract,
                                exclude_clauses=getattr(job, 'exclude_clauses', ()), rewrites=getattr(job, 'rewrites', None))
    parts.append(ex.text)
    metas.insert(0, dict(function=fi.qualname, role='under contract', file=ex.srcrel, lines=list(ex.lines), sha256=ex.sha,
                         loop_contracts=ex.loops_spliced))
    parts.append('#define VERIF_GHOST_INIT ' + ' '.join(ghost_inits))
    parts.append(gen_harness(job, fi, contract))
    text = '\n'.join(parts) + '\n'
    for rel, pat in getattr(job, 'require', ()):
        txt_ = ' '.join(proj.clean(rel).split())
        if not re.search(pat, txt_):
            raise ExtractError('required source text %r not found in %s (the job rewrites an operator by hand and must see its definition unchanged)' % (pat, rel))
        report.hit('R16.required_source_text(%s)' % pat)
    replace_cnames = replace_cnames + list(getattr(job, 'extra_replace', ()))
    # goto-instrument aborts on --replace-call-with-contract for a function that is never called: pass only callees the generated text calls
    # (a callee the code stopped calling is not an error of the code; its contract simply plays no role)
    called = [c for c in replace_cnames if len(re.findall(r'\b%s(?:__at_\w+)?\s*\(' % re.escape(c), text)) > 1]
    for c in replace_cnames:
        if c not in called:
            report.hit('R6.replaced_callee_not_called(%s)' % c)
    replace_cnames = called
    return dict(text=text, entry='h_' + fi.cname, cname=(fi.cname if getattr(job, 'enforce', True) else None), replace=replace_cnames, contract=contract,
                report=report, metas=metas, fi=fi, has_loops=bool(contract.loops), loop_lines=ex.loop_lines)


def build_lemma_tu(proj, job, report):
    """a lemma over contracts: the harness of contracts/<job>.c calls functions that are all replaced by their
    contracts (their bodies are not in the TU) and asserts a consequence"""
    real = job.real
    contract = T.Contract(T.contract_path(job.contract_name or job.name.replace('.', '_')))
    if contract.harness is None:
        raise ExtractError('lemma %s has no /*@ harness */' % job.name)
    parts = [PRELUDE % dict(strcap=job.strcap, ppdefs=PPDEFS)]
    seen = set()
    for c in ['Math'] + [c.lstrip('<') for c in job.const_classes]:
        if c not in seen:
            parts.append(T.emit_constants(proj, c, own=False, real=real, report=report))
            seen.add(c)
    ghost_done = set()
    ghost_inits = []

    def emit_ghost_of(cc):
        out = []
        key = os.path.abspath(cc.path)
        if key in ghost_done:
            return ''
        ghost_done.add(key)
        for u in cc.uses:
            out.append(emit_ghost_of(T.Contract(T.contract_path(u))))
        out.append(cc.emit_ghost())
        if cc.ghost_init:
            ghost_inits.append(' '.join(l.strip() for l in cc.ghost_init[2]))
        return '\n'.join(out)
    replace_cnames = []
    for spec in job.replace:
        q, opt = _callee(spec)
        cfi = T.funcinfo(proj, q, opt.get('cname'), real, opt.get('select'), opt.get('may_throw', False), opt.get('arity'))
        if opt.get('static'):
            cfi.is_method = False
        cc = T.Contract(T.contract_path(cfi.cname))
        if not cc.clauses:
            raise ExtractError('no contract file for callee %s' % cfi.cname)
        parts.append(emit_ghost_of(cc))
        parts.append(T.callee_decl(cfi, cc))
        replace_cnames.append(cfi.cname)
    parts.append(emit_ghost_of(contract))
    parts.append('#define VERIF_GHOST_INIT ' + ' '.join(ghost_inits))
    parts.append(('#line %d "%s"\n' % (contract.harness[1], contract.path)) + '\n'.join(contract.harness[2]))
    cname = job.cname
    return dict(text='\n'.join(parts) + '\n', entry='h_' + cname, cname=None, replace=replace_cnames, contract=contract,
                report=report, metas=[dict(function='(lemma over the contracts of %s)' % ', '.join(replace_cnames), role='lemma')],
                fi=None, has_loops=False, loop_lines=[])


_SHIM_HASH = None


def shim_hash():
    global _SHIM_HASH
    if _SHIM_HASH is None:
        h = hashlib.sha256()
        for fn in sorted(os.listdir(os.path.join(VERIF, 'shim'))):
            h.update(open(os.path.join(VERIF, 'shim', fn), 'rb').read())
        for t in ('cbmc', 'goto-instrument'):
            try:
                h.update(subprocess.run([t, '--version'], stdout=subprocess.PIPE).stdout)
            except Exception:
                pass
        _SHIM_HASH = h.hexdigest()
    return _SHIM_HASH


def _limit():
    try:
        resource.setrlimit(resource.RLIMIT_AS, (7 << 30, 7 << 30))
    except Exception:
        pass


def run_cmd(cmd, timeout, cwd=None, stdout_path=None, limit=True):
    t0 = time.time()
    try:
        if stdout_path:
            with open(stdout_path, 'w') as fo:
                p = subprocess.run(cmd, stdout=fo, stderr=subprocess.PIPE, timeout=timeout, cwd=cwd, preexec_fn=_limit if limit else None)
            out = ''
        else:
            p = subprocess.run(cmd, stdout=subprocess.PIPE, stderr=subprocess.PIPE, timeout=timeout, cwd=cwd, preexec_fn=_limit if limit else None)
            out = p.stdout.decode(errors='replace')
        return p.returncode, out, p.stderr.decode(errors='replace'), time.time() - t0
    except subprocess.TimeoutExpired:
        return 'timeout', '', '', time.time() - t0


# loops of the shim's own helper functions (bounded by the literal / alphabet lengths, not by the job's --unwind)
SHIM_UNWIND = {'__CPROVER_contracts_write_set_check_assignment.0': 40, '__CPROVER_contracts_write_set_check_array_set.0': 40,
               '__CPROVER_contracts_write_set_check_assigns_clause_inclusion.0': 40, '__CPROVER_contracts_write_set_check_frees_clause_inclusion.0': 40,
               '__CPROVER_contracts_write_set_check_havoc_object.0': 40, '__CPROVER_contracts_write_set_check_deallocate.0': 40,
               '__CPROVER_contracts_write_set_check_array_copy.0': 40, '__CPROVER_contracts_write_set_check_array_replace.0': 40,
               '__CPROVER_contracts_car_set_contains.0': 40, '__CPROVER_contracts_write_set_havoc_get_assignable_target.0': 40,
               'verif_strlen.0': 44, 'verif_strchr.0': 44, 'verif_index_of.0': 44, 'vstr_set.0': 16, 'vstr_in_set_.0': 16}

# Math helpers that are inlined (their extracted bodies become part of the verified TU) whenever mentioned
AUTO_INLINE = {'Math::digits': {}, 'Math::pi': {}, 'Math::degree': {}, 'Math::NaN': {}, 'Math::infinity': {}, 'Math::sq': {}, 'Math::LatFix': {},
               'Math::norm': {}, 'Math::polyval': {}}
AUTO_ORDER = ['Math::digits', 'Math::pi', 'Math::degree', 'Math::NaN', 'Math::infinity', 'Math::sq', 'Math::LatFix', 'Math::norm', 'Math::polyval']

CHECK_FLAGS = ['--slice-formula', '--bounds-check', '--pointer-check', '--signed-overflow-check', '--conversion-check',
               '--div-by-zero-check', '--undefined-shift-check']


def run_job(proj, job, workdir, tier='quick', seed=0, only_property=None, noslice=False):
    """returns result dict: status in ok|fail|error|timeout, obligations list"""
    res = dict(job=job.name, func=job.func, status='error', obligations=[], failures=[], wall_s=0.0, solver_s=0.0,
               diag='', backend='cbmc 6.11 SAT (minisat2)', props=sorted(job.props))
    t0 = time.time()
    if getattr(job, 'lean', None):
        return run_lean(job, res, t0)
    try:
        b = build_tu(proj, job)
    except ExtractError as e:
        res['diag'] = 'extraction: %s' % e
        return res
    except Exception as e:
        import traceback
        res['diag'] = 'extraction crashed: %s\n%s' % (e, traceback.format_exc())
        return res
    res['metas'] = b['metas']
    res['rules'] = dict(b['report'].rules)
    res['dropped'] = b['report'].dropped
    res['cname'] = b['cname'] or job.cname
    res['contract_path'] = b['contract'].path
    res['fi'] = b['fi']
    res['strcap'] = job.strcap
    res['replace_contracts'] = b['replace']
    res['const_classes'] = list(job.const_classes)
    res['replay_ghost'] = getattr(job, 'replay_ghost', [])
    res['jobobj'] = job
    os.makedirs(os.path.join(OUT, 'tu'), exist_ok=True)
    sub = getattr(job, 'subname', job.name).replace('#', '.')
    res['job'] = getattr(job, 'subname', job.name)
    tu_path = os.path.join(workdir, sub + '.c')
    with open(tu_path, 'w') as f:
        f.write(b['text'])
    shutil.copy(tu_path, os.path.join(OUT, 'tu', sub + '.c'))
    res['tu_sha256'] = hashlib.sha256(b['text'].encode()).hexdigest()
    # Result cache: the verdict is a deterministic function of the generated TU (which is re-extracted from /repo's working
    # tree on every run) and of the tool command lines; a later check that needs the same function reuses it.
    cache_key = hashlib.sha256(('\n'.join([b['text'], repr(job.defines), repr(job.unwind), repr(getattr(job, 'unwindset', None)), repr(job.cbmc_flags),
                                             repr(getattr(job, 'sat', None)), repr(job.object_bits), repr(only_property), repr(noslice), repr(b['replace']),
                                             tier if job.timeout is None else str(job.timeout), shim_hash(), 'v5'])) .encode()).hexdigest()
    cache_path = os.path.join(OUT, 'cache', cache_key + '.json')
    if os.environ.get('VERIF_NOCACHE') != '1' and os.path.exists(cache_path):
        try:
            with open(cache_path) as fc:
                cached = json.load(fc)
            for k in ('status', 'obligations', 'failures', 'solver_s', 'diag', 'backend', 'n_obligations', 'n_discharged', 'canary_ok', 'checker_cmd', 'line_coverage', 'site_canaries',
                      'instrument_cmd', 'warnings', 'excluded_integer_conversion_checks'):
                if k in cached:
                    res[k] = cached[k]
            res['cached'] = True
            res['wall_s'] = round(time.time() - t0, 2)
            return res
        except Exception:
            pass
    a_gb = os.path.join(workdir, sub + '.a.gb')
    b_gb = os.path.join(workdir, sub + '.b.gb')
    timeout = job.timeout or (120 if tier == 'quick' else 1800)
    # The per-job budgets in jobs.py were measured with 12 solver processes on 16 cores; quick-tier jobs get three times that budget so that a
    # loaded machine does not turn a proof into 'undecided' (some sub-jobs needed 90% of the nominal budget).  The nominal value stays in the
    # cache key; thorough-tier jobs keep their nominal budget (they are allowed to run out of it).
    if getattr(job, 'tier', 'quick') == 'quick' and tier == 'quick':
        timeout = int(timeout * float(os.environ.get('VERIF_TIMEOUT_FACTOR', '3')))
    cmd = ['goto-cc', '-Wall', '-Werror', '--function', b['entry'], '-I', os.path.join(VERIF, 'shim'), '-I', os.path.join(VERIF, 'contracts')]
    cmd += ['-D' + d for d in job.defines] + job.extra_cflags + [tu_path, '-o', a_gb]
    rc, out, err, _ = run_cmd(cmd, 120)
    if rc != 0:
        res['diag'] = 'goto-cc failed (the extraction rules do not cover this text, or contract syntax):\n' + (out + err)[-3000:]
        return res
    if re.search(r'implicit function declaration|function .* is not declared', out + err):
        res['diag'] = 'goto-cc: a function is used without a declaration (it would silently return int):\n' + (out + err)[-2000:]
        return res
    if b['has_loops']:
        # DFCC gives spurious frame failures for an uncontracted loop that follows a contracted one in the same
        # function: loops without a contract are unwound (with unwinding assertions) BEFORE the contract instrumentation
        rc, out, err, _ = run_cmd(['goto-instrument', '--show-loops', a_gb], 120)
        ids = re.findall(r'Loop (%s\.\d+):\s*\n\s*file \S+ line (\d+)' % re.escape(b['cname']), out)
        todo = [i for i, ln in ids if int(ln) not in b['loop_lines']]
        if len(ids) - len(todo) != len(b['loop_lines']):
            res['diag'] = 'loop contracts: could not match contracted loops by source line (%s vs %s)' % (ids, b['loop_lines'])
            return res
        if todo:
            a2 = a_gb + '.pre'
            us = dict(getattr(job, 'unwindset', None) or {})
            rc, out, err, _ = run_cmd(['goto-instrument', '--unwindset', ','.join('%s:%d' % (i, us.get(i, job.unwind or 2)) for i in todo),
                                       '--unwinding-assertions', a_gb, a2], 300)
            if rc != 0:
                res['diag'] = 'goto-instrument pre-unwinding failed:\n' + (out + err)[-2000:]
                return res
            a_gb = a2
    cmd = ['goto-instrument', '--dfcc', b['entry']] + (['--enforce-contract', b['cname']] if b['cname'] else [])
    for r in b['replace']:
        cmd += ['--replace-call-with-contract', r]
    if b['has_loops']:
        cmd += ['--apply-loop-contracts']
    cmd += [a_gb, b_gb]
    rc, out, err, _ = run_cmd(cmd, 300)
    if rc != 0:
        res['diag'] = 'goto-instrument failed:\n' + (out + err)[-3000:]
        return res
    res['instrument_cmd'] = ' '.join(cmd[:-2])
    json_path = os.path.join(workdir, sub + '.json')
    cmd = ['cbmc', b_gb] + ([] if job.no_checks else [c for c in CHECK_FLAGS if not (noslice and c == '--slice-formula')]) + ['--json-ui', '--trace']
    if job.unwind:
        cmd += ['--unwind', str(job.unwind), '--unwinding-assertions']
        us = dict(SHIM_UNWIND)
        us['vstr_copy_in.0'] = job.strcap + 1
        for k in range(6):
            us['%s.%d' % (b['entry'], k)] = max(job.strcap, job.unwind or 0) + 1   # the harness' own initialisation loops
        us['vstr_find_first_not_of.0'] = job.strcap + 1
        for k, v in (getattr(job, 'unwindset', None) or {}).items():
            us[k] = v
            if b['cname'] and k.startswith(b['cname'] + '.'):
                # DFCC renames the function under contract
                us[b['cname'] + '_wrapped_for_contract_checking.' + k.split('.', 1)[1]] = v
        cmd += ['--unwindset', ','.join('%s:%d' % kv for kv in sorted(us.items()))]
    cmd += ['--object-bits', 'OBJBITS']
    cmd += job.cbmc_flags
    if getattr(job, 'sat', None):
        cmd += ['--sat-solver', job.sat]
        res['backend'] = 'cbmc 6.11 SAT (%s)' % job.sat
    if only_property:
        cmd += ['--property', only_property]
    res['checker_cmd'] = ' '.join(['goto-cc --function %s <tu>' % b['entry'], '&&'] + res['instrument_cmd'].split() + ['&&'] +
                                  [c for c in cmd if c != b_gb])
    # DFCC's object sets are arrays of 2^object-bits entries: keep the pointer width as small as the TU allows
    # (cbmc says 'too many addressed objects' when it is too small; then retry with one more bit)
    dt_total = 0.0
    for ob in range(job.object_bits or 9, 14):
        cmd_ob = [str(ob) if c == 'OBJBITS' else c for c in cmd]
        rc, out, err, dt = run_cmd(cmd_ob, timeout, stdout_path=json_path)
        dt_total += dt
        if rc == 'timeout':
            break
        try:
            txt = open(json_path).read()
        except Exception:
            txt = ''
        if 'too many addressed objects' not in txt:
            break
    dt = dt_total
    used_objbits = ob
    res['checker_cmd'] = res['checker_cmd'].replace('OBJBITS', str(ob))
    res['solver_s'] = round(dt, 2)
    if rc == 'timeout':
        res['status'] = 'timeout'
        res['diag'] = 'cbmc timed out after %ds' % timeout
        res['wall_s'] = round(time.time() - t0, 2)
        return res
    try:
        with open(json_path) as f:
            data = json.load(f)
    except Exception as e:
        res['diag'] = 'cbmc output not parseable (rc=%s): %s %s' % (rc, e, err[-2000:])
        return res
    results = None
    msgs = []
    for m in data:
        if 'result' in m:
            results = m['result']
        if m.get('messageType') in ('ERROR', 'WARNING'):
            msgs.append(m.get('messageText', ''))
    if results is None:
        res['diag'] = 'cbmc produced no results (rc=%s): %s' % (rc, '\n'.join(msgs)[-3000:])
        return res
    res['warnings'] = [m for m in msgs if 'ignoring' in m or 'no body' in m][:20]
    contract = b['contract']
    canary_ok = False
    site_canaries = {}
    infra = []
    dropped_conv = []
    for r in results:
        loc = r.get('sourceLocation', {})
        f = loc.get('file', '')
        line = int(loc.get('line', 0) or 0)
        desc = r.get('description', '')
        ob = dict(id=r.get('property'), status=r['status'], desc=desc, file=f, line=line, function=loc.get('function'))
        # clause mapping
        ob['clause'] = None
        if f.startswith(os.path.join(VERIF, 'contracts')) or '/contracts/' in f:
            cpath = f
            c = contract if os.path.abspath(f) == os.path.abspath(contract.path) else T.Contract(f)
            ob['clause'] = '%s:%s' % (os.path.basename(f)[:-2], c.clause_at(line))
            if re.match(r'^(post|inv|lemma|pre)\.[\w.]+$', desc):
                ob['clause'] = '%s:%s' % (os.path.basename(f)[:-2], desc)   # a named assertion of the harness
        if re.search(r'arithmetic overflow on (signed to unsigned|unsigned to signed|unsigned to unsigned|signed to signed) type conversion', desc) and r['status'] != 'SUCCESS':
            # integer conversions between signedness / widths are defined (modular or implementation-defined) behaviour,
            # not undefined: cbmc's --conversion-check is kept only for the float -> integer obligations
            ob['status'] = 'NOT-AN-OBLIGATION'
            ob['note'] = 'integer conversion: defined behaviour, excluded'
            dropped_conv.append(ob)
            continue
        if desc.startswith('canary'):
            ob['canary'] = True
            if desc.startswith('canary: call of'):
                site_canaries[desc] = site_canaries.get(desc, False) or r['status'] == 'FAILURE'
            elif r['status'] == 'FAILURE':
                canary_ok = True
            res['obligations'].append(ob)
            continue
        if r['status'] != 'SUCCESS' and (desc.startswith('unwinding assertion') or 'undefined function' in desc or desc.startswith('no body')):
            infra.append('%s: %s (%s:%s)' % (ob['id'], desc, f, line))
            res['obligations'].append(ob)
            continue
        if r['status'] != 'SUCCESS':
            ob['trace_inputs'] = extract_inputs(r.get('trace', []), b['entry'])
            ob['trace_tail'] = trace_tail(r.get('trace', []))
            res['failures'].append(ob)
        res['obligations'].append(ob)
    res['canary_ok'] = canary_ok
    res['excluded_integer_conversion_checks'] = len(dropped_conv)
    n_real = [o for o in res['obligations'] if not o.get('canary')]
    res['n_obligations'] = len(n_real)
    res['n_discharged'] = sum(1 for o in n_real if o['status'] == 'SUCCESS')
    if res['failures']:
        # a counterexample found within the bounds is a real trace of the extracted code
        res['status'] = 'fail'
        if infra:
            res['diag'] = 'also: ' + '; '.join(infra[:4])
    elif infra:
        res['status'] = 'error'
        res['diag'] = 'not a verdict -- the bound or the model is insufficient: ' + '; '.join(infra[:6])
    elif not canary_ok:
        res['status'] = 'error'
        res['diag'] = 'vacuity guard: the canary assertion after the call was NOT reachable (contradictory preconditions?)'
    else:
        res['status'] = 'ok'
        # Second / third vacuity guards (per path, not only the end of the harness); both are EVALUATED per base job over the union of its
        # case / variant / known-finding sub-jobs (function vacuity_report below), because a case split legitimately makes other cases' lines unreachable:
        #  - every call site of a replaced callee must return on some input (site canaries, recorded above);
        #  - every source line of the function under contract must be reachable (cbmc --cover location).
        # A contradictory assumed callee contract (or precondition) silently cuts the paths after the call -- all their obligations are then
        # 'discharged' -- and shows up as an unreached site / line.
        if getattr(job, 'case', None) is not None:
            # sub-job of an input case split: the per-line guard would need the union over all cases and costs a second solver run per case
            # (measured: 95 s per case for MGRS::Reverse); the split is guarded by its #exhaustive obligation, the per-case end-of-harness canary
            # and the call-site canaries instead
            res['line_coverage'] = dict(skipped='input case split: guarded by #exhaustive + end canary + call-site canaries')
        else:
            try:
                job._repo = proj.repo
                res['line_coverage'] = line_coverage(job, b, cmd, used_objbits, b_gb, workdir, sub)
            except Exception as e:
                res['line_coverage'] = dict(error=str(e))
    res['site_canaries'] = site_canaries
    res['wall_s'] = round(time.time() - t0, 2)
    if res['status'] in ('ok', 'fail'):
        try:
            os.makedirs(os.path.join(OUT, 'cache'), exist_ok=True)
            with open(cache_path, 'w') as fc:
                json.dump({k: res[k] for k in ('status', 'obligations', 'failures', 'solver_s', 'diag', 'backend', 'n_obligations', 'n_discharged', 'canary_ok',
                                                'checker_cmd', 'instrument_cmd', 'warnings', 'excluded_integer_conversion_checks', 'line_coverage', 'site_canaries') if k in res}, fc)
        except Exception:
            pass
    return res


def line_coverage(job, b, cmd, ob, b_gb, workdir, sub):
    """lines of the function under contract (real /repo line numbers, via #line) that no satisfiable basic block contains"""
    metas = b.get('metas') or []
    m0 = next((m for m in metas if m.get('role') == 'under contract' and m.get('lines')), None)
    if m0 is None:
        return dict(skipped='no function body under contract (lemma job)')
    srcfile = os.path.join(getattr(job, '_repo', '/repo'), m0['file'])
    lo, hi = m0['lines']
    drop = set(CHECK_FLAGS) | {'--trace', '--json-ui'}
    cov_cmd = ['cbmc', b_gb, '--cover', 'location', '--cover-failed-assertions', '--json-ui']
    skip = False
    for c in cmd[2:]:
        if skip:
            skip = False
            continue
        if c in drop:
            continue
        if c == '--property':
            skip = True
            continue
        cov_cmd.append(str(ob) if c == 'OBJBITS' else c)
    cov_cmd = [c for c in cov_cmd if c != '--unwinding-assertions']
    jp = os.path.join(workdir, sub + '.cover.json')
    dt = 0.0
    for bits in range(int(ob), 14):
        # the coverage instrumentation adds objects: same retry rule as the main run
        cc = list(cov_cmd)
        if '--object-bits' in cc:
            cc[cc.index('--object-bits') + 1] = str(bits)
        rc, out, err, dt1 = run_cmd(cc, min(300, job.timeout or 300), stdout_path=jp)
        dt += dt1
        if rc == 'timeout':
            return dict(skipped='coverage run timed out after %.0fs (the per-path guard is not available for this sub-job)' % dt, seconds=round(dt, 1))
        try:
            if 'too many addressed objects' not in open(jp).read():
                break
        except Exception:
            break
    data = json.load(open(jp))
    goals = None
    for m in data:
        if 'goals' in m:
            goals = m['goals']
    if goals is None:
        return dict(skipped='no goals in the coverage output: ' + ' | '.join(m.get('messageText', '')[:200] for m in data if m.get('messageType') == 'ERROR')[:400])
    seen, hit = set(), set()
    for g in goals:
        mm = re.search(r'\(lines (.*)\)\s*$', g.get('description', ''))
        if not mm:
            continue
        for part in mm.group(1).split(';'):
            pm = re.match(r'\s*(\S+?):([^:]*):([\d,\-]+)\s*$', part)
            if not pm or os.path.abspath(pm.group(1)) != os.path.abspath(srcfile):
                continue
            for rng in pm.group(3).split(','):
                a, _, z = rng.partition('-')
                for ln in range(int(a), int(z or a) + 1):
                    if lo <= ln <= hi:
                        seen.add(ln)
                        if g.get('status') == 'satisfied':
                            hit.add(ln)
    return dict(file=m0['file'], seen=sorted(seen), hit=sorted(hit), seconds=round(dt, 1))


def vacuity_report(proj, base_job, sub_results):
    """per base job, over ALL its sub-jobs: (unreached call sites of replaced callees, unreachable source lines, notes)"""
    allow = [re.compile(r) for r in getattr(base_job, 'allow_unreachable', ()) if not r.startswith('block:')]
    sites = {}
    for r in sub_results:
        for d, h in (r.get('site_canaries') or {}).items():
            sites[d] = sites.get(d, False) or h
    unreached = [d for d, h in sorted(sites.items()) if not h and not any(rx.search(d) for rx in allow)]
    seen, hit, notes, srcrel = set(), set(), [], None
    for r in sub_results:
        lc = r.get('line_coverage') or {}
        if lc.get('skipped') or lc.get('error') or 'seen' not in lc:
            notes.append('%s: %s' % (r['job'], lc.get('skipped') or lc.get('error')))
            # a sub-job without coverage data: its lines count as reachable (the guard is then only as strong as the remaining sub-jobs)
            continue
        srcrel = lc.get('file', srcrel)
        seen.update(lc.get('seen', []))
        hit.update(lc.get('hit', []))
    if getattr(base_job, 'cases', None) or any(('seen' not in (r.get('line_coverage') or {})) for r in sub_results):
        missing = []   # incomplete data: do not claim unreachability
    else:
        missing = sorted(seen - hit)
    unreachable = []
    if missing and srcrel:
        src_lines = open(os.path.join(proj.repo, srcrel), errors='replace').read().split('\n')
        # 'block:<regex>' : every line of the statement / brace block that starts on a line matching the regex (up to the closing brace or the ';')
        allowed_lines = set()
        for a in getattr(base_job, 'allow_unreachable', ()):
            if not a.startswith('block:'):
                continue
            rx = re.compile(a[len('block:'):])
            for i, text in enumerate(src_lines):
                if rx.search(text):
                    depth, j, opened = 0, i, False
                    while j < len(src_lines):
                        for ch in src_lines[j]:
                            if ch in '{(':
                                depth += 1
                                opened = opened or ch == '{'
                            elif ch in '})':
                                depth -= 1
                        allowed_lines.add(j + 1)
                        if depth <= 0 and (opened or src_lines[j].rstrip().endswith(';')):
                            break
                        j += 1
        for ln in missing:
            text = src_lines[ln - 1] if ln - 1 < len(src_lines) else ''
            if ln not in allowed_lines and not any(rx.search(text) for rx in allow):
                unreachable.append(ln)
    return unreached, unreachable, srcrel, notes, dict(call_sites=len(sites), lines_with_code=len(seen), lines_reachable=len(hit))


def run_lean(job, res, t0):
    """a file of Lean 4 / Mathlib lemmas: every theorem is an obligation, discharged by the Lean kernel; sorry / axiom / admit are refused"""
    path = os.path.join(VERIF, job.lean)
    res['backend'] = 'lean 4 kernel (Mathlib tactics)'
    res['checker_cmd'] = 'lean ' + job.lean
    res['metas'] = [dict(function=job.lean, role='bridging lemmas (pure integer arithmetic)')]
    try:
        text = open(path).read()
    except Exception as e:
        res['diag'] = 'cannot read %s: %s' % (path, e)
        return res
    code = re.sub(r'/-.*?-/', '', text, flags=re.S)
    code = re.sub(r'--.*', '', code)
    bad = re.findall(r'\b(sorry|admit|axiom|native_decide|unsafe)\b', code)
    if bad:
        res['diag'] = 'refused: the lemma file uses %s' % sorted(set(bad))
        return res
    names = re.findall(r'^\s*theorem\s+(\w+)', code, flags=re.M)
    rc, out, err, dt = run_cmd(['lean', path], job.timeout or 1200, cwd=os.path.dirname(path), limit=False)   # lean maps Mathlib's .olean files: no address-space limit
    res['solver_s'] = round(dt, 2)
    if rc == 'timeout':
        res['status'] = 'timeout'
        res['diag'] = 'lean timed out'
        return res
    ok = (rc == 0) and ('error' not in (out + err)) and ("declaration uses 'sorry'" not in (out + err))
    for n in names:
        res['obligations'].append(dict(id='lean.' + n, status='SUCCESS' if ok else 'FAILURE', desc='theorem ' + n, file=path, line=0,
                                       function=None, clause='%s:%s' % (os.path.basename(path), n)))
    res['n_obligations'] = len(names)
    res['n_discharged'] = len(names) if ok else 0
    res['canary_ok'] = True
    if ok and names:
        res['status'] = 'ok'
    else:
        res['status'] = 'error'
        res['diag'] = 'lean did not accept the file:\n' + (out + err)[-2000:]
    res['wall_s'] = round(time.time() - t0, 2)
    return res


def extract_inputs(trace, entry):
    """last value assigned to each harness local in_* before the call (function == harness)"""
    vals = {}
    for st in trace:
        if st.get('stepType') != 'assignment':
            continue
        lhs = st.get('lhs', '')
        fn = st.get('sourceLocation', {}).get('function')
        if fn != entry:
            continue
        if not (lhs.startswith('in_') or lhs.startswith('verif_ghost')):
            continue
        v = st.get('value', {})
        if 'binary' in v and isinstance(v['binary'], str):
            vals[lhs] = dict(data=v.get('data'), binary=v['binary'], type=v.get('type'))
    return vals


def trace_tail(trace, n=25):
    out = []
    for st in trace:
        if st.get('stepType') == 'assignment' and not st.get('hidden'):
            loc = st.get('sourceLocation', {})
            if loc.get('file', '').startswith('<builtin'):
                continue
            lhs = st.get('lhs', '')
            if lhs.startswith('__') or 'write_set' in lhs or 'contract' in lhs or lhs.startswith('dynamic_object') or '_ctx' in lhs:
                continue
            v = st.get('value', {})
            out.append('%s:%s %s = %s' % (os.path.basename(loc.get('file', '?')), loc.get('line', '?'), lhs, v.get('data')))
    return out[-n:]


def expand_cases(job, kf=()):
    """a job with an exhaustive case split becomes one sub-job per case plus the exhaustiveness obligation.
    Known findings (known.py) split the job further: the listed input pattern / everything else."""
    import copy
    swaps = [k for k in kf if k.get('swap')]
    if swaps:
        out = []
        j0 = copy.copy(job)
        j0.exclude_clauses = tuple(job.exclude_clauses) + tuple(k['swap'][0] for k in swaps)
        rest = [k for k in kf if not k.get('swap')]
        out.extend(expand_cases(j0, rest))
        for k in swaps:
            j = copy.copy(job)
            j.exclude_clauses = tuple(job.exclude_clauses) + (k['swap'][1],)
            j.subname = job.name + '#kf%d' % k['line']
            out.append(j)
        return out
    if kf:
        out = []
        j0 = copy.copy(job)
        j0.extra_assume = ' && '.join('!(%s)' % k['when'] for k in kf)
        out.extend(expand_cases(j0))
        for k in kf:
            j = copy.copy(job)
            j.extra_assume = k['when']
            j.subname = job.name + '#kf%d' % k['line']
            if job.cases or getattr(job, 'variants', None):
                for jj in expand_cases(j):
                    if not jj.subname.endswith('#exhaustive'):
                        out.append(jj)
            else:
                out.append(j)
        return out
    if getattr(job, 'variants', None):
        out = []
        for var in job.variants:
            lab, defs = var[0], var[1]
            j = copy.copy(job)
            j.variants = None
            j.defines = list(job.defines) + list(defs)
            if len(var) > 2:
                # (label, defines, only these clause ids): the clause set is split over the variants
                keep = set(var[2])
                cpath = T.contract_path(job.contract_name or job.cname)
                allc = [c[3] for c in T.Contract(cpath).clauses if c[3].startswith('post.')]
                j.exclude_clauses = tuple(set(job.exclude_clauses) | set(c for c in allc if c not in keep))
            j.subname = job.name + '#' + lab
            out.extend(expand_cases(j))
        return out
    if not job.cases:
        return [job]
    out = []
    base = getattr(job, 'subname', job.name)
    for lab, cond in job.cases:
        j = copy.copy(job)
        j.cases = None
        j.case = (lab, cond)
        j.subname = base + '#' + lab
        out.append(j)
    j = copy.copy(job)
    j.cases = None
    j.case_cover = list(job.cases)
    j.subname = base + '#exhaustive'
    out.append(j)
    return out


def requery(proj, job, workdir, prop_id, assume, tier='quick', noslice=True):
    """ask the verifier for another counterexample of one obligation, restricted to `assume`
    (used only to obtain a replayable input; never to decide anything)"""
    import copy
    j = copy.copy(job)
    ea = getattr(job, 'extra_assume', None)
    if assume:
        j.extra_assume = '(%s) && (%s)' % (ea, assume) if ea else assume
    j.subname = getattr(job, 'subname', job.name) + '.requery'
    r = run_job(proj, j, workdir, tier, only_property=prop_id, noslice=noslice)
    for f in r.get('failures', []):
        if f['id'] == prop_id:
            return f
    return None
