"""jobs.py -- the functions under contract, and which property each obligation set serves."""
from .runner import Job

LOOKUP = ('Utility::lookup', dict(select=r'const char ?\*'))

# native counterpart of the ghost bookkeeping of contracts/Math_AngNormalize.c (replay only)
# the reduced angle the clauses of sind / cosd / sincosd talk about is DEFINED as remquo(x, 90) (C standard): computed natively from that definition
REMQUO_GHOST = '{ int q_ = 0; cap_d = std::remquo((double)x, 90.0, &q_); vm_last_k = q_; }'
# PolygonArea jobs: `acc += y` is rewritten to the call operator+= makes; the operator definitions must be unchanged (else: extraction break)
ACC_REQUIRE = [('include/GeographicLib/Accumulator.hpp', r'Accumulator& operator\+=\(T y\) \{ Add\(y\); return \*this; \}'),
               ('include/GeographicLib/Accumulator.hpp', r'T operator\(\)\(\) const \{ return _s; \}'),
               ('include/GeographicLib/Accumulator.hpp', r'T operator\(\)\(T y\) const \{ return Sum\(y\); \}'),
               ('include/GeographicLib/Accumulator.hpp', r'Accumulator& operator=\(T y\) \{ _s = y; _t = 0; return \*this; \}')]
ACC_PLUS_EQ = (r'\b(_perimetersum|_areasum) \+= (\w+);', r'Accumulator_Add(VERIF_OBJ(\1), \2);')
ANGNORM_GHOST = 'g_AngNormalize_calls = 1; g_AngNormalize_arg = %s; g_AngNormalize_ret = Math::AngNormalize(g_AngNormalize_arg);'

# domain in which the AngNormalize contract pins its result (identity clause); used only to re-query replayable counterexamples
EXACT_LON = 'fabs(in_lon) <= 180.0 || isnan(in_lon) || isinf(in_lon)'

JOBS = [
    Job('Utility.lookup', 'Utility::lookup', ['C18', 'C05', 'C10', 'C13', 'C14'], select=r'const char ?\*',
        unwind=42, defines=['VERIF_LOOKUP_CAP=40'],
        description='alphabet search used by every grid-code / MGRS / DMS parser'),
    Job('Georef.Forward', 'Georef::Forward', ['C18', 'C13', 'C14'], replace=['Math::AngNormalize'], unwind=28,
        cases=[('p_le0', 'in_prec <= 0')] + [('p%d' % k, 'in_prec == %d' % k) for k in range(1, 11)] + [('p_ge11', 'in_prec >= 11')],
        replay_ghost=[ANGNORM_GHOST % 'lon'], timeout=300, replay_domain=EXACT_LON,
        description='Georef encoder'),
    Job('GARS.Forward', 'GARS::Forward', ['C18', 'C13', 'C14'], replace=['Math::AngNormalize'], unwind=10,
        replay_ghost=[ANGNORM_GHOST % 'lon'], timeout=300, replay_domain=EXACT_LON, description='GARS encoder'),
    Job('Geohash.Forward', 'Geohash::Forward', ['C18', 'C13', 'C14'], replace=['Math::AngNormalize'], unwind=92,
        replay_ghost=[ANGNORM_GHOST % 'lon'], timeout=300, replay_domain=EXACT_LON, description='Geohash encoder'),
    Job('Georef.Reverse', 'Georef::Reverse', ['C18', 'C13', 'C14'], replace=[LOOKUP], unwind=12, timeout=300, description='Georef decoder',
        cases=[('len_le7', 'in_georef.len <= 7')] + [('len%d' % k, 'in_georef.len == %d' % k) for k in range(8, 27, 2)] +
              [('len_odd', 'in_georef.len >= 9 && in_georef.len % 2 == 1'), ('len_gt26', 'in_georef.len > 26 && in_georef.len % 2 == 0')]),
    Job('GARS.Reverse', 'GARS::Reverse', ['C18', 'C13', 'C14'], replace=[LOOKUP], unwind=5, timeout=300, description='GARS decoder'),
    Job('Geohash.Reverse', 'Geohash::Reverse', ['C18', 'C13', 'C14'], replace=[LOOKUP], unwind=19, timeout=300, description='Geohash decoder'),
    Job('OSGB.CheckCoords', 'OSGB::CheckCoords', ['C18', 'C13', 'C14'], timeout=300, description='OSGB range check'),
    Job('OSGB.GridReference', 'OSGB::GridReference', ['C18', 'C13', 'C14'], select=r'^real x', unwind=12, timeout=300,
        replace=[('OSGB::CheckCoords', dict(may_throw=True))], description='OSGB encoder',
        cases=[('p%d' % k, 'in_prec == %d' % k) for k in range(0, 12)] + [('p_out', 'in_prec < 0 || in_prec > 11')]),
    Job('OSGB.GridReference_rev.nospace', 'OSGB::GridReference', ['C18', 'C13'], select=r'^const', cname='OSGB_GridReference_rev', contract_name='OSGB_GridReference_rev_nospace',
        replace=[LOOKUP], unwind=30, strcap=29, timeout=900, sat='cadical',
        description='OSGB decoder on strings without white space (fully unwound: bounded): accepts exactly two letters + an even number of digits up to 22, precision = half of them'),
    Job('OSGB.GridReference_rev', 'OSGB::GridReference', ['C18', 'C13', 'C14'], select=r'^const', cname='OSGB_GridReference_rev',
        unwind=13, strcap=64, timeout=300, replace=[LOOKUP], description='OSGB decoder'),
    # ---- MGRS (C05)
    Job('MGRS.LatitudeBand', 'MGRS::LatitudeBand', ['C05', 'C04', 'C14'], description='latitude band number'),
    Job('MGRS.CheckCoords', 'MGRS::CheckCoords', ['C05', 'C13', 'C14'], timeout=300, description='MGRS coordinate ranges and hemisphere folding'),
    Job('MGRS.Forward', 'MGRS::Forward', ['C05', 'C13', 'C14'], select=r'real lat', unwind=14, timeout=400,
        replace=[('MGRS::CheckCoords', dict(may_throw=True)), 'MGRS::LatitudeBand', 'MGRS::UTMRow'], const_classes=['UTMUPS'],
        cases=[('p_m1', 'in_prec == -1'), ('p0', 'in_prec == 0')] + [('p%d' % k, 'in_prec == %d' % k) for k in range(1, 12)] + [('p_out', 'in_prec < -1 || in_prec > 11')],
        description='MGRS encoder (latitude given)'),
    Job('MGRS.Forward.nolat', 'MGRS::Forward', ['C05', 'C13', 'C14'], select=r'^((?!real lat).)*$', cname='MGRS_Forward_nolat', const_classes=['UTMUPS'], timeout=300,
        replace=[('MGRS::Forward', dict(select=r'real lat', may_throw=True)), 'MGRS::LatitudeBand', ('UTMUPS::Reverse', dict(select='gamma', may_throw=True))],
        inline=[('UTMUPS::Reverse', dict(select=r'^((?!gamma).)*$', cname='UTMUPS_Reverse_nogk', may_throw=True))],
        description='MGRS encoder that derives the latitude band itself'),
    Job('MGRS.Reverse', 'MGRS::Reverse', ['C05', 'C13', 'C14'], unwind=30, strcap=29, timeout=400, replace=[LOOKUP, 'MGRS::UTMRow'], const_classes=['UTMUPS'],
        unwindset={'MGRS_Reverse.0': 30, 'MGRS_Reverse.1': 15, 'verif_index_of.0': 26, 'verif_strlen.0': 26},
        cases=[('len%d' % k, 'in_mgrs.len == %d' % k) for k in range(0, 29)],
        defines=['MR_STRUCT'], sat='cadical',
        description='MGRS decoder, structure (one sub-job per string length 0..28: the digit loops then have concrete trip counts)'),
    Job('MGRS.Reverse.values', 'MGRS::Reverse', ['C05'], unwind=30, strcap=29, timeout=400, replace=[LOOKUP, 'MGRS::UTMRow'], const_classes=['UTMUPS'],
        unwindset={'MGRS_Reverse.0': 30, 'MGRS_Reverse.1': 15, 'verif_index_of.0': 26, 'verif_strlen.0': 26}, defines=['MR_VALUES'],
        assume=('in_mgrs.len <= 6', 'the value clauses concern prec <= 0 only, and MGRS.Reverse/post.accept_structure shows prec >= 1 for every accepted string longer than 6'),
        # this job is restricted to strings of at most 6 characters (see `assume`): more than 11 digit pairs cannot occur in it
        allow_unreachable=[r'block:if \(prec1 > maxprec_\)'],
        description='MGRS decoder, coordinates of grid-zone-only and 100 km strings'),
    Job('MGRS.UTMRow', 'MGRS::UTMRow', ['C05', 'C14'], description='row/band compatibility (exhaustive over all 3200 argument triples)'),
    # ---- UTMUPS (C04)
    Job('UTMUPS.StandardZone', 'UTMUPS::StandardZone', ['C04', 'C13', 'C14'], replace=['Math::AngNormalize', 'MGRS::LatitudeBand'],
        const_classes=['<MGRS'], replay_ghost=[ANGNORM_GHOST % 'lon'], replay_domain=EXACT_LON, description='UTM zone rules'),
    Job('UTMUPS.CheckCoords', 'UTMUPS::CheckCoords', ['C04', 'C13', 'C14'], const_classes=['<MGRS'], description='UTM/UPS coordinate ranges'),
    Job('UTMUPS.Forward', 'UTMUPS::Forward', ['C04', 'C13', 'C14'], select=r'gamma', const_classes=['<MGRS'],
        replace=[('UTMUPS::StandardZone', dict(may_throw=True)), ('UTMUPS::CheckCoords', dict(may_throw=True)), ('Math::AngDiff', dict(arity=2, cname='Math_AngDiff2')),
                 ('TransverseMercator::Forward', dict(static=True, arity=7)), ('PolarStereographic::Forward', dict(static=True, arity=7))],
        inline=['UTMUPS::CentralMeridian'], description='geographic -> UTM/UPS'),
    Job('UTMUPS.Reverse', 'UTMUPS::Reverse', ['C04', 'C13', 'C14'], select=r'gamma', const_classes=['<MGRS'],
        replace=[('UTMUPS::CheckCoords', dict(may_throw=True)), ('TransverseMercator::Reverse', dict(static=True, arity=7)),
                 ('PolarStereographic::Reverse', dict(static=True, arity=7))],
        inline=['UTMUPS::CentralMeridian'], description='UTM/UPS -> geographic'),
    Job('UTMUPS.Transfer', 'UTMUPS::Transfer', ['C04', 'C13', 'C14'], const_classes=['<MGRS'],
        replace=[('UTMUPS::Forward', dict(select='gamma', may_throw=True)), ('UTMUPS::Reverse', dict(select='gamma', may_throw=True))],
        inline=[('UTMUPS::Forward', dict(select=r'^((?!gamma).)*$', cname='UTMUPS_Forward_nogk', may_throw=True)),
                ('UTMUPS::Reverse', dict(select=r'^((?!gamma).)*$', cname='UTMUPS_Reverse_nogk', may_throw=True))],
        description='zone / hemisphere transfer'),
    Job('UTMUPS.DecodeEPSG', 'UTMUPS::DecodeEPSG', ['C04', 'C14'], const_classes=['<MGRS'], description='EPSG code -> zone, hemisphere'),
    Job('UTMUPS.EncodeEPSG', 'UTMUPS::EncodeEPSG', ['C04', 'C14'], const_classes=['<MGRS'], description='zone, hemisphere -> EPSG code'),
    Job('UTMUPS.EPSG_roundtrip', None, ['C04'], lemma=True, replace=['UTMUPS::EncodeEPSG', 'UTMUPS::DecodeEPSG'], const_classes=['MGRS', 'UTMUPS'],
        description='lemma: EPSG encode/decode are mutually inverse (from the two contracts)'),
    # ---- Math primitives (C16)
    Job('Math.sum.float', 'Math::sum', ['C16', 'C14'], real='float', timeout=3600, tier='thorough', cname='Math_sum', contract_name='Math_sum',
        cases=[('near', '!(verif_fabsf(in_u) >= verif_fabsf(in_v)*536870912.0f) && !(verif_fabsf(in_v) >= verif_fabsf(in_u)*536870912.0f)'),
               ('u_dominates', 'verif_fabsf(in_u) >= verif_fabsf(in_v)*536870912.0f'), ('v_dominates', 'verif_fabsf(in_v) >= verif_fabsf(in_u)*536870912.0f')],
        defines=['VERIF_SUM_MAX=1.7014117e38f', 'VERIF_SUM_EPS=5.9604645e-08f', 'VERIF_SUM_EXACT(s,t,u,v)=((double)(s)+(double)(t)==(double)(u)+(double)(v)||(verif_fabsf(u)>=verif_fabsf(v)*536870912.0f&&(s)==(u)&&(t)==(v))||(verif_fabsf(v)>=verif_fabsf(u)*536870912.0f&&(s)==(v)&&(t)==(u)))'],
        description='TwoSum, all finite floats (exactness checked in binary64)'),
    Job('Math.sum', 'Math::sum', ['C16', 'C14'], timeout=300, exclude_clauses=['post.exact_error', 'post.error_bound', 'post.absorbed'],
        defines=['VERIF_SUM_MAX=8.988465674311579e307', 'VERIF_SUM_EXACT(s,t,u,v)=1', 'VERIF_SUM_EPS=1.1102230246251565e-16'],
        description='TwoSum (double): rounded sum, NaN, zero sign (error term clauses: thorough tier)'),
    Job('Math.sum.errorterm', 'Math::sum', ['C16'], timeout=3600, tier='thorough', exclude_clauses=['post.exact_error'], sat='cadical',
        defines=['VERIF_SUM_MAX=8.988465674311579e307', 'VERIF_SUM_EXACT(s,t,u,v)=1', 'VERIF_SUM_EPS=1.1102230246251565e-16'],
        description='TwoSum (double): |t| <= ulp(s)/2 (the clauses callers rely on)'),
    Job('Math.AngNormalize', 'Math::AngNormalize', ['C16', 'C13', 'C14'], exclude_clauses=['post.equivalent'], description='angle normalisation (double)'),
    Job('Math.AngNormalize.equiv', 'Math::AngNormalize', ['C16'], tier='thorough', timeout=3600, description='angle normalisation (double): equivalence modulo 360'),
    Job('Math.AngNormalize.float', 'Math::AngNormalize', ['C16'], real='float', cname='Math_AngNormalize', contract_name='Math_AngNormalize',
        defines=['VERIF_ANGNORM_EXACT=8388608.0f', 'VERIF_ANGNORM_WIDE=double'], description='angle normalisation (float)'),
    Job('Math.AngRound', 'Math::AngRound', ['C16', 'C14'], defines=['VERIF_ANGROUND_GAP=6.938893903907228e-18', 'VERIF_ANGROUND_T=double'], description='small-angle rounding (double)'),
    Job('Math.AngRound.float', 'Math::AngRound', ['C16'], real='float', cname='Math_AngRound', contract_name='Math_AngRound',
        defines=['VERIF_ANGROUND_GAP=3.7252903e-09f', 'VERIF_ANGROUND_T=float'], description='small-angle rounding (float)'),
    Job('Math.sincosd', 'Math::sincosd', ['C16', 'C13', 'C14'], replay_ghost=[REMQUO_GHOST], timeout=600, description='sine and cosine in degrees: quadrant logic, exact special values, signed zeros'),
    Job('Math.sincosde', 'Math::sincosde', ['C16', 'C13', 'C14'], timeout=900, inline=['Math::AngRound'], replay_ghost=[REMQUO_GHOST],
        description='sine and cosine in degrees with an error term: NaN, range, signed zeros; quadrant logic and exact values for a zero error term'),
    Job('Math.tand', 'Math::tand', ['C16', 'C13', 'C14'], timeout=600, replace=['Math::sincosd'], description='tangent in degrees: clamped poles, NaN preserved, signed zeros'),
    Job('Math.sind', 'Math::sind', ['C16', 'C13', 'C14'], replay_ghost=[REMQUO_GHOST], timeout=300, description='sine in degrees'),
    Job('Math.cosd', 'Math::cosd', ['C16', 'C13', 'C14'], replay_ghost=[REMQUO_GHOST], timeout=300, description='cosine in degrees'),
    Job('Math.AngDiff', 'Math::AngDiff', ['C16', 'C13', 'C14'], arity=3, select=r'T& ?e', replace=['Math::sum'], timeout=300,
        defines=['VERIF_SUM_MAX=8.988465674311579e307', 'VERIF_SUM_EXACT(s,t,u,v)=1', 'VERIF_SUM_EPS=1.1102230246251565e-16'], description='angle difference: range, NaN, error term bound'),
    Job('Math.AngDiff2', 'Math::AngDiff', ['C16', 'C14'], arity=2, cname='Math_AngDiff2', replace=[('Math::AngDiff', dict(arity=3))],
        description='angle difference, one-output overload (over the contract of the two-output form)'),
    Job('Math.LatFix', 'Math::LatFix', ['C16', 'C14'], description='latitude fixing'),
    Job('Math.atan2d', 'Math::atan2d', ['C16', 'C01', 'C14'], description='arctangent in degrees: range, quadrant, exact axes'),
    # ---- text parsing (C10)
    Job('DMS.InternalDecode', 'DMS::InternalDecode', ['C10', 'C13', 'C14'], unwind=14, strcap=13, timeout=600,
        # natively, "accepted as a DMS string" is observable from outside: no exception and not one of nummatch's special names
        replay_ghost=['cap_main = !verif_thrown && Utility::nummatch<double>(dmsa_str) == 0;'],
        replace=[LOOKUP, 'Utility::nummatch'], description='DMS component parser (strings up to 12 characters, full unwinding: bounded)'),
    Job('DMS.Decode', 'DMS::Decode', ['C10', 'C13', 'C14'], select=r'flag& ind', cname='DMS_Decode_body', contract_name='DMS_Decode_body', unwind=14, strcap=13, timeout=900,
        replace=[LOOKUP], extra_replace=['DMS_InternalDecode_piece'],
        rewrites=[(r'replace\(dmsa,[^;]*;', ''), (r'string dmsa = dms;', ''), (r'\bdmsa\b', 'dms'), (r'string::size_type', 'size_t'),
                  (r'dms\.find_first_of\(signs_, pa\)', 'verif_find_first_of_signs(dms, pa)'),
                  (r'pb = min\(verif_find_first_of_signs\(dms, pa\), end\);', 'pb = verif_find_first_of_signs(dms, pa); if (!(pb < end)) pb = end;'),
                  (r'v \+= InternalDecode\(dms\.substr\(p, pb - p\), ind2\);', 'v += DMS_InternalDecode_piece(dms, p, pb - p, &ind2); if (verif_thrown) return 0;')],
        description='splitting at internal signs and summing the pieces: hemisphere flag of the sum, incompatible flags, empty string (unicode substitution table dropped)'),
    Job('DMS.DecodeLatLon', 'DMS::DecodeLatLon', ['C10', 'C13', 'C14'], replace=[('DMS::Decode', dict(select=r'string', may_throw=True))],
        description='latitude/longitude pair: coordinate order, hemisphere letters'),
    Job('DMS.DecodeAngle', 'DMS::DecodeAngle', ['C10', 'C13', 'C14'], replace=[('DMS::Decode', dict(select=r'string', may_throw=True))], description='arc angle'),
    Job('DMS.DecodeAzimuth', 'DMS::DecodeAzimuth', ['C10', 'C13', 'C14'], replace=[('DMS::Decode', dict(select=r'string', may_throw=True)), 'Math::AngNormalize'],
        description='azimuth'),
    # ---- geodesic series coefficient tables (C01 clause b)
    Job('Geodesic.A3coeff', 'Geodesic::A3coeff', ['C01', 'C13'], unwind=9, timeout=300, description='series coefficient table: consumed exactly, member array filled exactly'),
    Job('Geodesic.C3coeff', 'Geodesic::C3coeff', ['C01', 'C13'], unwind=9, timeout=300, description='series coefficient table: consumed exactly, member array filled exactly'),
    Job('Geodesic.C4coeff', 'Geodesic::C4coeff', ['C01', 'C13'], unwind=9, timeout=300, description='series coefficient table: consumed exactly, member array filled exactly'),
    Job('Geodesic.C3f', 'Geodesic::C3f', ['C01', 'C13', 'C14'], unwind=9, timeout=300, description='series coefficient evaluation from the member table: consumed exactly, output array in bounds'),
    Job('Geodesic.C4f', 'Geodesic::C4f', ['C01', 'C13', 'C14'], unwind=9, timeout=300, description='series coefficient evaluation from the member table: consumed exactly, output array in bounds'),
    Job('Geodesic.A3f', 'Geodesic::A3f', ['C13', 'C14'], unwind=9, timeout=300, description='polynomial over the member table: reads in bounds, no writes'),
    Job('Geodesic.A1m1f', 'Geodesic::A1m1f', ['C01', 'C13', 'C14'], unwind=9, timeout=300, description='series coefficient evaluation: table reads in bounds'),
    Job('Geodesic.A2m1f', 'Geodesic::A2m1f', ['C01', 'C13', 'C14'], unwind=9, timeout=300, description='series coefficient evaluation: table reads in bounds'),
    Job('Geodesic.C1f', 'Geodesic::C1f', ['C01', 'C13', 'C14'], unwind=9, timeout=300, description='series coefficient evaluation: table consumed exactly, output array in bounds'),
    Job('Geodesic.C1pf', 'Geodesic::C1pf', ['C01', 'C13', 'C14'], unwind=9, timeout=300, description='series coefficient evaluation: table consumed exactly, output array in bounds'),
    Job('Geodesic.C2f', 'Geodesic::C2f', ['C01', 'C13', 'C14'], unwind=9, timeout=300, description='series coefficient evaluation: table consumed exactly, output array in bounds'),
    # ---- output masks / line objects (C12), ranges (C01)
    Job('GeodesicLine.GenPosition', 'GeodesicLine::GenPosition', ['C12', 'C01', 'C13', 'C14'], const_classes=['<Geodesic'], timeout=600,
        replace=['Math::sincosd', 'Math::atan2d', ('Math::AngNormalize', dict(ghost=False)), 'Geodesic::SinCosSeries', 'GeodesicLineExact::GenPosition'],
        inline=['GeodesicLine::Init'], sat='cadical',
        # the contract is for the series path (precondition !_exact): the delegation to the exact line is dead under it (GeodesicLineExact::GenPosition has its own job)
        allow_unreachable=[r'GeodesicLineExact_GenPosition', r'block:return _lineexact\.GenPosition\('],
        description='position on a geodesic line (series): output-mask frame, NaN rule, ranges'),
    # ---- Accumulator (C16, C08)
    Job('Accumulator.Add', 'Accumulator::Add', ['C16', 'C08', 'C13'], inline=['Math::sum'], timeout=600, description='two-word accumulator: add a value (frame, NaN, empty accumulator)'),
    Job('Accumulator.Sum', 'Accumulator::Sum', ['C16', 'C08', 'C14'], replace=[('Accumulator::Add', dict(ghost=False))], timeout=300,
        rewrites=[(r'Accumulator a\(\*this\);', 'struct Accumulator a = *self;'), (r'a\.Add\(y\);', 'Accumulator_Add(VERIF_OBJ(a), y);')],
        description='sum with one more value, the accumulator itself unchanged'),
    Job('Accumulator.remainder', 'Accumulator::remainder', ['C16', 'C08', 'C13'], replace=['Accumulator::Add'], timeout=300,
        rewrites=[(r'return \*this;', 'return self;')],
        description='reduce the accumulator modulo y: frame, one renormalising Add(0), NaN rule'),
    Job('Accumulator.times_real', 'Accumulator::operator*=', ['C16', 'C13'], select=r'^\s*T y\s*$', cname='Accumulator_times_real', timeout=300,
        rewrites=[(r'return \*this;', 'return self;'), (r'using std::fma;', '')],
        description='multiply the accumulator by a real: frame, NaN rule, exact scaling of both words where the products are exact'),
    Job('Accumulator.times_int', 'Accumulator::operator*=', ['C16', 'C08', 'C13'], select=r'^\s*int n\s*$', cname='Accumulator_times_int', timeout=300,
        rewrites=[(r'return \*this;', 'return self;')],
        description='multiply the accumulator by an integer: frame, -1 negates both words exactly, 1 is the identity, NaN rule'),
    Job('Accumulator.plus_eq', 'Accumulator::operator+=', ['C16', 'C08', 'C13'], cname='Accumulator_plus_eq', replace=['Accumulator::Add'], timeout=300,
        rewrites=[(r'return \*this;', 'return self;')], description='acc += y is exactly one Add(y)'),
    Job('Accumulator.minus_eq', 'Accumulator::operator-=', ['C16', 'C13'], cname='Accumulator_minus_eq', replace=['Accumulator::Add'], timeout=300,
        rewrites=[(r'return \*this;', 'return self;')], description='acc -= y is exactly one Add(-y)'),
    Job('Accumulator.assign', 'Accumulator::operator=', ['C16', 'C08', 'C13'], select=r'^\s*T y\s*$', cname='Accumulator_assign', timeout=300,
        rewrites=[(r'return \*this;', 'return self;')], description='acc = y forgets the previous state: [y, +0]'),
    # ---- polygon area (C08)
    Job('PolygonArea.transitdirect', 'PolygonAreaT::transitdirect', ['C08', 'C14'], timeout=900, sat='cadical', description='crossing parity for unrolled (direct) edges'),
    Job('PolygonArea.transitdirect.full', 'PolygonAreaT::transitdirect', ['C08'], timeout=3600, sat='cadical', tier='thorough', defines=['TD_MAXTURNS=1073741824'],
        description='crossing parity for direct edges, |lon| < 2^30 turns'),
    Job('PolygonArea.transit', 'PolygonAreaT::transit', ['C08', 'C13', 'C14'], timeout=600, sat='cadical',
        inline=[('Math::AngDiff', dict(arity=2, cname='Math_AngDiff2')), ('Math::AngDiff', dict(arity=3, select=r'T& ?e')), 'Math::sum', 'Math::AngNormalize'],
        description='prime-meridian crossing of the shortest edge (inverse edges)'),
    Job('PolygonArea.Clear', 'PolygonAreaT::Clear', ['C08'], structs=['Accumulator'], inline=['Math::NaN'], require=ACC_REQUIRE,
        rewrites=[(r'_areasum = 0;', '_areasum._s = 0; _areasum._t = 0;'), (r'_perimetersum = 0;', '_perimetersum._s = 0; _perimetersum._t = 0;')],
        description='Clear: an empty history'),
    Job('PolygonArea.ctor', 'PolygonAreaT::PolygonAreaT', ['C08', 'C13'], const_classes=['<Geodesic'], structs=['Accumulator'],
        replace=['Geodesic::EllipsoidArea', 'PolygonAreaT::Clear'], rewrites=[(r'_earth = earth;', '_earth = *earth;')],
        description='constructor: empty history and the solver mask (establishes the invariant of the other PolygonArea contracts)'),
    Job('PolygonArea.AddPoint', 'PolygonAreaT::AddPoint', ['C08', 'C13'], const_classes=['<Geodesic'],
        replace=[('Geodesic::GenInverse', dict(arity=12)), 'Accumulator::Add', 'PolygonAreaT::transit'],
        require=ACC_REQUIRE, rewrites=[ACC_PLUS_EQ],
        description='edit history: one vertex = one edge added to the sums and the crossing count'),
    Job('PolygonArea.AddEdge', 'PolygonAreaT::AddEdge', ['C08', 'C13'], const_classes=['<Geodesic'],
        replace=['Geodesic::GenDirect', 'Accumulator::Add', 'PolygonAreaT::transitdirect'], require=ACC_REQUIRE, rewrites=[ACC_PLUS_EQ],
        description='edit history: one edge by azimuth and length (direct problem from the current vertex)'),
    Job('PolygonArea.Compute', 'PolygonAreaT::Compute', ['C08', 'C14'], const_classes=['<Geodesic'],
        replace=[('Geodesic::GenInverse', dict(arity=12)), 'Accumulator::Add', 'Accumulator::Sum', 'PolygonAreaT::transit'], extra_replace=['PolygonAreaT_AreaReduceAcc'],
        require=ACC_REQUIRE,
        rewrites=[(r'_perimetersum\(\)', '_perimetersum._s'), (r'_perimetersum\(s12\)', 'Accumulator_Sum(VERIF_OBJ(_perimetersum), s12)'),
                  (r'Accumulator<> tempsum\(_areasum\);', 'struct Accumulator tempsum = _areasum;'), (r'tempsum \+= S12;', 'Accumulator_Add(VERIF_OBJ(tempsum), S12);'),
                  (r'AreaReduce\(tempsum, crossings, reverse, sign\);', 'PolygonAreaT_AreaReduceAcc(self, &tempsum, crossings, reverse, sign);'),
                  (r'tempsum\(\)', 'tempsum._s')],
        description='closing the polygon on a copy of the sums: closing edge, crossing total, conventions; the object is not written'),
    Job('PolygonArea.TestPoint', 'PolygonAreaT::TestPoint', ['C08', 'C14'], const_classes=['<Geodesic'], unwind=4, timeout=900, sat='cadical', structs=['Accumulator'],
        replace=[('Geodesic::GenInverse', dict(arity=12)), 'PolygonAreaT::transit', 'PolygonAreaT::AreaReduce'], require=ACC_REQUIRE,
        rewrites=[(r'_perimetersum\(\)', '_perimetersum._s'), (r'_areasum\(\)', '_areasum._s')],
        description='tentative vertex: the same edges, crossing total and conventions as AddPoint + Compute; the object is not written'),
    Job('PolygonArea.TestEdge', 'PolygonAreaT::TestEdge', ['C08', 'C14'], const_classes=['<Geodesic'], structs=['Accumulator'], timeout=900,
        replace=[('Geodesic::GenInverse', dict(arity=12)), 'Geodesic::GenDirect', 'PolygonAreaT::transit', 'PolygonAreaT::transitdirect', 'PolygonAreaT::AreaReduce'],
        require=ACC_REQUIRE, rewrites=[(r'_perimetersum\(\)', '_perimetersum._s'), (r'_areasum\(\)', '_areasum._s')], inline=['Math::NaN'],
        description='tentative edge: direct edge + closing edge, crossing total and conventions; the object is not written'),
    Job('PolygonArea.AreaReduce', 'PolygonAreaT::AreaReduce', ['C08', 'C14'], timeout=600, inline=[('PolygonAreaT::Remainder', dict(select=r'real'))],
        variants=[('range', [], ['post.range']), ('zero', [], ['post.zero_area']), ('even_signed', [], ['post.even_signed']), ('even_unsigned', [], ['post.even_unsigned']),
                  ('odd', [], ['post.odd_magnitude'])],
        # after remainder(area, A) and the half-area correction |area| <= A/2 holds, so `area > A/2` and `area >= A` never hold: the two `area -= _area0`
        # statements are defensive dead code (shown by the verifier: unreachable for every input)
        allow_unreachable=[r'^\s*area -= _area0;'],
        description='reduction of the accumulated area modulo the ellipsoid area; sign / reverse conventions'),
    # ---- geoid (C20)
    Job('Geoid.height', 'Geoid::height', ['C20', 'C13', 'C14'], timeout=600, unwind=13, sat='cadical',
        replace=[('Geoid::rawval', dict(may_throw=True)), ('Math::AngNormalize', dict(ghost=False)), 'Math::LatFix'],
        description='geoid height: raster indices in range, NaN, frame of the thread-safe mode'),
    Job('Geoid.rawval', 'Geoid::rawval', ['C20', 'C13', 'C14'], cname='Geoid_rawval_body', timeout=600,
        replace=['Geoid::filepos'],
        rewrites=[(r'_file\.get\((\w+)\);', r'\1 = geoid_file_byte();'),
                  (r'real\(_data\[([^\]]+)\]\s*\[([^;]+)\]\);', r'geoid_cache_read(self, \1, \2);')],
        # pixel_size_ is the compile-time constant 2 in this configuration (GEOGRAPHICLIB_GEOID_PGM_PIXEL_WIDTH): the 4-byte branch is dead code
        allow_unreachable=[r'block:if \(pixel_size_ == 4\)'],
        description='raster reader: longitude wrap, pole reflection, area-cache addressing (file offsets inside the raster)'),
    Job('Geoid.CacheArea.30min', 'Geoid::CacheArea', ['C20', 'C13', 'C14'], timeout=1500, sat='cadical', cname='Geoid_CacheArea', contract_name='Geoid_CacheArea',
        assume=('in_self._width == 720 && in_self._height == 361', 'BOUNDED stand-in: the raster size of a published geoid grid (30min); the proof for a symbolic size did not finish in 1500 s'),
        replace=[('Math::AngNormalize', dict(ghost=False)), 'Math::LatFix', 'Geoid::filepos', 'Geoid::CacheClear'], extra_replace=['geoid_read_pixels'],
        rewrites=[(r'int oysize = int\(_data\.size\(\)\);', 'int oysize = 0;'),
                  (r'_data\.resize\(_ysize, vector<pixel_t>\(_xsize\)\);', ';'),
                  (r'for \(int iy = min\(oysize, _ysize\); iy--;\)\s*_data\[iy\]\.resize\(_xsize\);', ';'),
                  (r'Utility::readarray<pixel_t, pixel_t, true>\s*\(_file, &\(_data\[iy - in\]\[0\]\), xs1\);', 'geoid_read_pixels(self, iy - in, 0, xs1);'),
                  (r'Utility::readarray<pixel_t, pixel_t, true>\s*\(_file, &\(_data\[iy - in\]\[xs1\]\), _xsize - xs1\);', 'geoid_read_pixels(self, iy - in, xs1, _xsize - xs1);')],
        description='area cache: every cached pixel is the raster pixel rawval will look for there, rows complete, reads inside their raster row (all rows: loop contract)'),
    Job('Geoid.CacheArea.15min', 'Geoid::CacheArea', ['C20', 'C13', 'C14'], timeout=1500, sat='cadical', cname='Geoid_CacheArea', contract_name='Geoid_CacheArea',
        assume=('in_self._width == 1440 && in_self._height == 721', 'BOUNDED stand-in: the raster size of a published geoid grid (15min); the proof for a symbolic size did not finish in 1500 s'),
        replace=[('Math::AngNormalize', dict(ghost=False)), 'Math::LatFix', 'Geoid::filepos', 'Geoid::CacheClear'], extra_replace=['geoid_read_pixels'],
        rewrites=[(r'int oysize = int\(_data\.size\(\)\);', 'int oysize = 0;'),
                  (r'_data\.resize\(_ysize, vector<pixel_t>\(_xsize\)\);', ';'),
                  (r'for \(int iy = min\(oysize, _ysize\); iy--;\)\s*_data\[iy\]\.resize\(_xsize\);', ';'),
                  (r'Utility::readarray<pixel_t, pixel_t, true>\s*\(_file, &\(_data\[iy - in\]\[0\]\), xs1\);', 'geoid_read_pixels(self, iy - in, 0, xs1);'),
                  (r'Utility::readarray<pixel_t, pixel_t, true>\s*\(_file, &\(_data\[iy - in\]\[xs1\]\), _xsize - xs1\);', 'geoid_read_pixels(self, iy - in, xs1, _xsize - xs1);')],
        description='area cache: every cached pixel is the raster pixel rawval will look for there, rows complete, reads inside their raster row (all rows: loop contract)'),
    Job('Geoid.CacheArea.5min', 'Geoid::CacheArea', ['C20', 'C13', 'C14'], timeout=1500, sat='cadical', cname='Geoid_CacheArea', contract_name='Geoid_CacheArea',
        assume=('in_self._width == 4320 && in_self._height == 2161', 'BOUNDED stand-in: the raster size of a published geoid grid (5min); the proof for a symbolic size did not finish in 1500 s'),
        replace=[('Math::AngNormalize', dict(ghost=False)), 'Math::LatFix', 'Geoid::filepos', 'Geoid::CacheClear'], extra_replace=['geoid_read_pixels'],
        rewrites=[(r'int oysize = int\(_data\.size\(\)\);', 'int oysize = 0;'),
                  (r'_data\.resize\(_ysize, vector<pixel_t>\(_xsize\)\);', ';'),
                  (r'for \(int iy = min\(oysize, _ysize\); iy--;\)\s*_data\[iy\]\.resize\(_xsize\);', ';'),
                  (r'Utility::readarray<pixel_t, pixel_t, true>\s*\(_file, &\(_data\[iy - in\]\[0\]\), xs1\);', 'geoid_read_pixels(self, iy - in, 0, xs1);'),
                  (r'Utility::readarray<pixel_t, pixel_t, true>\s*\(_file, &\(_data\[iy - in\]\[xs1\]\), _xsize - xs1\);', 'geoid_read_pixels(self, iy - in, xs1, _xsize - xs1);')],
        description='area cache: every cached pixel is the raster pixel rawval will look for there, rows complete, reads inside their raster row (all rows: loop contract)'),
    Job('Geoid.CacheArea.2p5min', 'Geoid::CacheArea', ['C20', 'C13', 'C14'], timeout=1500, sat='cadical', cname='Geoid_CacheArea', contract_name='Geoid_CacheArea',
        assume=('in_self._width == 8640 && in_self._height == 4321', 'BOUNDED stand-in: the raster size of a published geoid grid (2p5min); the proof for a symbolic size did not finish in 1500 s'),
        replace=[('Math::AngNormalize', dict(ghost=False)), 'Math::LatFix', 'Geoid::filepos', 'Geoid::CacheClear'], extra_replace=['geoid_read_pixels'],
        rewrites=[(r'int oysize = int\(_data\.size\(\)\);', 'int oysize = 0;'),
                  (r'_data\.resize\(_ysize, vector<pixel_t>\(_xsize\)\);', ';'),
                  (r'for \(int iy = min\(oysize, _ysize\); iy--;\)\s*_data\[iy\]\.resize\(_xsize\);', ';'),
                  (r'Utility::readarray<pixel_t, pixel_t, true>\s*\(_file, &\(_data\[iy - in\]\[0\]\), xs1\);', 'geoid_read_pixels(self, iy - in, 0, xs1);'),
                  (r'Utility::readarray<pixel_t, pixel_t, true>\s*\(_file, &\(_data\[iy - in\]\[xs1\]\), _xsize - xs1\);', 'geoid_read_pixels(self, iy - in, xs1, _xsize - xs1);')],
        description='area cache: every cached pixel is the raster pixel rawval will look for there, rows complete, reads inside their raster row (all rows: loop contract)'),
    Job('Geoid.CacheArea.1min', 'Geoid::CacheArea', ['C20', 'C13', 'C14'], timeout=1500, sat='cadical', cname='Geoid_CacheArea', contract_name='Geoid_CacheArea',
        assume=('in_self._width == 21600 && in_self._height == 10801', 'BOUNDED stand-in: the raster size of a published geoid grid (1min); the proof for a symbolic size did not finish in 1500 s'),
        replace=[('Math::AngNormalize', dict(ghost=False)), 'Math::LatFix', 'Geoid::filepos', 'Geoid::CacheClear'], extra_replace=['geoid_read_pixels'],
        rewrites=[(r'int oysize = int\(_data\.size\(\)\);', 'int oysize = 0;'),
                  (r'_data\.resize\(_ysize, vector<pixel_t>\(_xsize\)\);', ';'),
                  (r'for \(int iy = min\(oysize, _ysize\); iy--;\)\s*_data\[iy\]\.resize\(_xsize\);', ';'),
                  (r'Utility::readarray<pixel_t, pixel_t, true>\s*\(_file, &\(_data\[iy - in\]\[0\]\), xs1\);', 'geoid_read_pixels(self, iy - in, 0, xs1);'),
                  (r'Utility::readarray<pixel_t, pixel_t, true>\s*\(_file, &\(_data\[iy - in\]\[xs1\]\), _xsize - xs1\);', 'geoid_read_pixels(self, iy - in, xs1, _xsize - xs1);')],
        description='area cache: every cached pixel is the raster pixel rawval will look for there, rows complete, reads inside their raster row (all rows: loop contract)'),
    Job('Geoid.CacheArea.synthetic', 'Geoid::CacheArea', ['C20', 'C13', 'C14'], timeout=1500, sat='cadical', cname='Geoid_CacheArea', contract_name='Geoid_CacheArea',
        assume=('in_self._width == 24 && in_self._height == 13', 'BOUNDED stand-in: the raster size of a published geoid grid (synthetic); the proof for a symbolic size did not finish in 1500 s'),
        replace=[('Math::AngNormalize', dict(ghost=False)), 'Math::LatFix', 'Geoid::filepos', 'Geoid::CacheClear'], extra_replace=['geoid_read_pixels'],
        rewrites=[(r'int oysize = int\(_data\.size\(\)\);', 'int oysize = 0;'),
                  (r'_data\.resize\(_ysize, vector<pixel_t>\(_xsize\)\);', ';'),
                  (r'for \(int iy = min\(oysize, _ysize\); iy--;\)\s*_data\[iy\]\.resize\(_xsize\);', ';'),
                  (r'Utility::readarray<pixel_t, pixel_t, true>\s*\(_file, &\(_data\[iy - in\]\[0\]\), xs1\);', 'geoid_read_pixels(self, iy - in, 0, xs1);'),
                  (r'Utility::readarray<pixel_t, pixel_t, true>\s*\(_file, &\(_data\[iy - in\]\[xs1\]\), _xsize - xs1\);', 'geoid_read_pixels(self, iy - in, xs1, _xsize - xs1);')],
        description='area cache: every cached pixel is the raster pixel rawval will look for there, rows complete, reads inside their raster row (all rows: loop contract)'),
    Job('Geoid.CacheAll', 'Geoid::CacheAll', ['C20', 'C14'], replace=[('Geoid::CacheArea', dict(may_throw=True))], description='full cache = the area cache of the whole sphere'),
    Job('Geoid.height.history', 'Geoid::height', ['C20'], timeout=900, unwind=13, sat='cadical', harness='history', enforce=False,
        replace=[('Geoid::rawval', dict(may_throw=True)), ('Math::AngNormalize', dict(ghost=False)), 'Math::LatFix'],
        # the lemma is stated for bilinear interpolation (its harness assumes !_cubic): the twelve stencil reads of the cubic branch are outside it
        allow_unreachable=[r'call of Geoid_rawval at src/Geoid\.cpp:3(3[5-9]|4[0-9])'],
        description='lemma: the values interpolated are the raster values of the cell whatever the cache state / threading mode; cache stays consistent (bilinear)'),
    Job('Geoid.height.ranges', 'Geoid::height', ['C20'], timeout=3600, unwind=13, sat='cadical', harness='history', enforce=False, tier='thorough', defines=['GEOID_RANGE_LEMMAS'],
        replace=[('Geoid::rawval', dict(may_throw=True)), ('Math::AngNormalize', dict(ghost=False)), 'Math::LatFix'],
        description='lemma: cell indices inside the grid and interpolation weights in [0,1] (floating-point range reasoning with symbolic grid size)'),
    # ---- thread safety: const methods that write (C14)
    Job('AuxLatitude.fillcoeff', 'AuxLatitude::fillcoeff', ['C14', 'C13'], unwind=8, timeout=900,
        description='series coefficient cache fill (const method writing a mutable member); coefficient table addressing'),
    # ---- harmonic coefficient addressing (C19) / malformed coefficient files (C13)
    Job('coeff.Csize', 'coeff::Csize', ['C19', 'C13', 'C14'], sat='cadical', timeout=600, description='number of cosine coefficients for the degree/order read from a file header'),
    Job('coeff.index', 'coeff::index', ['C19', 'C13', 'C14'], sat='cadical', timeout=900, description='slot of the coefficient of degree n, order m in the packed triangular storage'),
    Job('coeff.index.lemmas', None, ['C19'], lean='lemmas/CoeffIndex.lean', timeout=1800,
        description='Lean lemmas: the slot lies inside a vector of Csize(N, M) entries; the slot function is injective (over the integers; cbmc shows index == slot without overflow)'),
    Job('coeff.ctor', 'coeff::coeff', ['C19', 'C13'], arity=5, replace=['coeff::index', 'SphericalEngine::RootTable'], sat='cadical', timeout=600,
        inline=['coeff::Csize', 'coeff::Ssize'],   # not called today; listed so that a constructor rewritten in terms of the size functions is still analysed
        rewrites=[(r'\b([CS])\.begin\(\)', r'\1->p'), (r'\b([CS])\.size\(\)', r'\1->n')],
        description='coefficient set constructor: index relations and vector sizes validated before anything is read'),
    Job('coeff.Sv', 'coeff::Sv', ['C19', 'C14'], arity=4, select=r'int n', description='sine coefficient with truncation to the used degree / order'),
    Job('coeff.Cv', 'coeff::Cv', ['C19', 'C14'], arity=4, select=r'int n', description='cosine coefficient with truncation to the used degree / order'),
    Job('coeff.Ssize', 'coeff::Ssize', ['C19', 'C13', 'C14'], inline=['coeff::Csize'], sat='cadical', timeout=600, description='number of sine coefficients'),
    # ---- geocentric (C07)
    Job('Geocentric.ctor', 'Geocentric::Geocentric', ['C13', 'C07'], arity=2, description='constructor: parameter validation; establishes the class invariant used by IntReverse'),
    Job('PolarStereographic.ctor', 'PolarStereographic::PolarStereographic', ['C13'], arity=3, replace=['Math::eatanhe'], description='constructor: parameter validation'),
    Job('TransverseMercator.ctor', 'TransverseMercator::TransverseMercator', ['C13'], arity=5, replace=['Math::eatanhe'], unwind=9,
        rewrites=[(r'_tmexact = [^;]*;', '')], description='constructor: parameter validation; Krueger coefficient table addressing'),
    Job('Geodesic.ctor', 'Geodesic::Geodesic', ['C13'], arity=3, replace=['Math::eatanhe', 'Geodesic::A3coeff', 'Geodesic::C3coeff', 'Geodesic::C4coeff'],
        rewrites=[(r'_geodexact = [^;]*;', ''), (r'_c2 = _geodexact\._c2;', ';')], timeout=600, description='constructor: parameter validation'),
    Job('LambertConformalConic.ctor', 'LambertConformalConic::LambertConformalConic', ['C13'], arity=4, select=r'real stdlat, real k0', replace=['Math::sincosd', 'LambertConformalConic::Init'], timeout=300,
        description='constructor (one standard parallel): parameter validation'),
    Job('LambertConformalConic.ctor2', 'LambertConformalConic::LambertConformalConic', ['C13'], arity=5, select=r'real stdlat1, real stdlat2', cname='LambertConformalConic_LambertConformalConic2', replace=['Math::sincosd', 'LambertConformalConic::Init'], timeout=300,
        description='constructor (two standard parallels): parameter validation'),
    Job('LambertConformalConic.ctor3', 'LambertConformalConic::LambertConformalConic', ['C13'], arity=7, select=r'real sinlat1, real coslat1', cname='LambertConformalConic_LambertConformalConic3', replace=['LambertConformalConic::Init'], timeout=300,
        description='constructor (sines and cosines of the standard parallels): parameter validation'),
    Job('AlbersEqualArea.ctor', 'AlbersEqualArea::AlbersEqualArea', ['C13'], arity=4, select=r'real stdlat, real k0', replace=['Math::sincosd', 'AlbersEqualArea::Init', 'AlbersEqualArea::atanhee'], timeout=300,
        description='constructor (one standard parallel): parameter validation'),
    Job('AlbersEqualArea.ctor2', 'AlbersEqualArea::AlbersEqualArea', ['C13'], arity=5, select=r'real stdlat1, real stdlat2', cname='AlbersEqualArea_AlbersEqualArea2', replace=['Math::sincosd', 'AlbersEqualArea::Init', 'AlbersEqualArea::atanhee'], timeout=300,
        description='constructor (two standard parallels): parameter validation'),
    Job('AlbersEqualArea.ctor3', 'AlbersEqualArea::AlbersEqualArea', ['C13'], arity=7, select=r'real sinlat1, real coslat1', cname='AlbersEqualArea_AlbersEqualArea3', replace=['AlbersEqualArea::Init', 'AlbersEqualArea::atanhee'], timeout=300,
        description='constructor (sines and cosines of the standard parallels): parameter validation'),
    Job('TransverseMercatorExact.ctor', 'TransverseMercatorExact::TransverseMercatorExact', ['C13'], arity=4,
        rewrites=[(r'_eEu = _mu;', ''), (r'_eEv = _mv;', '')], description='constructor: parameter validation (f must be positive)'),
    Job('GeodesicExact.ctor', 'GeodesicExact::GeodesicExact', ['C13'], arity=2, rewrites=[(r'_fft\.reset\(N\);', ';')], timeout=900, sat='cadical',
        description='constructor: parameter validation; index into the table of area-series sizes in bounds for every accepted ellipsoid'),
    Job('AuxLatitude.ctor', 'AuxLatitude::AuxLatitude', ['C13', 'C14'], arity=2, select=r'real a, real f', unwind=218, timeout=600,
        description='constructor: parameter validation; the coefficient cache starts empty (all NaN)'),
    Job('Geocentric.Rotation', 'Geocentric::Rotation', ['C07', 'C13', 'C14'], description='rotation matrix: frame and copied entries'),
    Job('Geocentric.IntReverse', 'Geocentric::IntReverse', ['C07', 'C13', 'C14'], replace=['Math::atan2d', 'Geocentric::Rotation'], timeout=900, sat='cadical',
        description='geocentric -> geodetic: ranges of latitude and longitude, frame, optional matrix pointer'),
    Job('GeodesicLine.LineInit', 'GeodesicLine::LineInit', ['C12', 'C01', 'C13'], const_classes=['<Geodesic'],
        inline=['Math::AngRound'], replace=['Math::sincosd', 'Geodesic::A1m1f', 'Geodesic::C1f', 'Geodesic::C1pf', 'Geodesic::A2m1f', 'Geodesic::C2f', 'Geodesic::SinCosSeries',
                 'Geodesic::C3f', 'Geodesic::C4f', 'Geodesic::A3f', 'GeodesicLineExact::LineInit'],
        description='line constants: capability word, stored point, third point undefined'),
    Job('GeodesicLine.ctor', 'GeodesicLine::GeodesicLine', ['C12', 'C01'], arity=5, select=r'azi1, unsigned caps', const_classes=['<Geodesic'], inline=['Math::AngRound'],
        replace=['Math::sincosd', ('Math::AngNormalize', dict(ghost=False)), 'GeodesicLine::LineInit'],
        description='line constructor (point + azimuth): normalised azimuth, capability word, third point undefined'),
    Job('GeodesicLine.ctor9', 'GeodesicLine::GeodesicLine', ['C12', 'C01'], arity=9, select=r'bool arcmode', cname='GeodesicLine_GeodesicLine9', const_classes=['<Geodesic'],
        replace=['GeodesicLine::LineInit', 'GeodesicLine::SetDistance', 'GeodesicLine::SetArc'], inline=['GeodesicLine::GenSetDistance'],
        description='line constructor with third point (DirectLine / ArcDirectLine / InverseLine): the third point is stored through SetDistance / SetArc'),
    Job('Geodesic.GenDirect', 'Geodesic::GenDirect', ['C12', 'C01', 'C14'], const_classes=['GeodesicLine'],
        replace=[('GeodesicLine::GeodesicLine', dict(arity=5, select=r'azi1, unsigned caps')), 'GeodesicLine::GenPosition', 'GeodesicExact::GenDirect'],
        rewrites=[(r'return GeodesicLine\(\*this, lat1, lon1, azi1, outmask\)\s*\.\s*GenPosition\(',
                   'struct GeodesicLine verif_line; GeodesicLine_GeodesicLine(VERIF_OBJ(verif_line), self, lat1, lon1, azi1, outmask); return GeodesicLine_GenPosition(VERIF_OBJ(verif_line), ')],
        description='direct problem through a temporary line: DISTANCE_IN supplied automatically, output-mask frame, ranges'),
    Job('Geodesic.GenDirectLine', 'Geodesic::GenDirectLine', ['C12', 'C01', 'C14'], const_classes=['GeodesicLine'], inline=['Math::AngRound'],
        replace=['Math::sincosd', ('Math::AngNormalize', dict(ghost=False)),
                 ('GeodesicLine::GeodesicLine', dict(arity=9, select=r'bool arcmode', cname='GeodesicLine_GeodesicLine9'))],
        rewrites=[(r'return GeodesicLine\(\*this, lat1, lon1, azi1, salp1, calp1,\s*caps, arcmode, s12_a12\);',
                   'struct GeodesicLine verif_line; GeodesicLine_GeodesicLine(VERIF_OBJ(verif_line), self, lat1, lon1, azi1, salp1, calp1, caps, arcmode, s12_a12); return verif_line;')],
        description='line with a third point (DirectLine / ArcDirectLine): DISTANCE_IN supplied automatically, third point stored, normalised azimuth'),
    Job('GeodesicLine.SetDistance', 'GeodesicLine::SetDistance', ['C12'], const_classes=['<Geodesic'], replace=[('GeodesicLine::GenPosition', dict(ghost=False))], inline=['Math::NaN'],
        description='third point by distance: NaN arc when the line lacks the capability'),
    Job('GeodesicLine.SetArc', 'GeodesicLine::SetArc', ['C12'], const_classes=['<Geodesic'], replace=[('GeodesicLine::GenPosition', dict(ghost=False))],
        description='third point by arc: distance stays NaN when the line lacks the capability'),
    Job('GeodesicLineExact.LineInit', 'GeodesicLineExact::LineInit', ['C12', 'C01', 'C13'], const_classes=['<GeodesicExact'], inline=['Math::AngRound'],
        replace=['Math::sincosd', ('EllipticFunction::Reset', dict(arity=4)), ('EllipticFunction::E', dict(arity=0)), ('EllipticFunction::D', dict(arity=0)), ('EllipticFunction::H', dict(arity=0)),
                 'EllipticFunction::deltaE', 'EllipticFunction::deltaD', 'EllipticFunction::deltaH', ('DST::integral', dict(arity=4))],
        rewrites=[(r'GeodesicExact::I4Integrand i4\([^;]*\);', ';'), (r'_cC4a\.resize\(_nC4\);', '_cC4a.p = (double*)__CPROVER_allocate((size_t)(_nC4) * sizeof(double), 0); _cC4a.n = _nC4;'),
                  (r'g\._fft\.transform\(i4, _cC4a\.data\(\)\);', ';'), (r'_cC4a\.data\(\)', r'_cC4a.p')],
        description='exact line constants: capability word, stored point, third point undefined, area-series buffer size'),
    Job('GeodesicLineExact.GenPosition', 'GeodesicLineExact::GenPosition', ['C12', 'C01', 'C13', 'C14'], const_classes=['<GeodesicExact'], timeout=900, sat='cadical',
        replace=['Math::sincosd', 'Math::atan2d', ('Math::AngNormalize', dict(ghost=False)), 'EllipticFunction::deltaE', 'EllipticFunction::deltaEinv',
                 'EllipticFunction::deltaD', 'EllipticFunction::deltaH', 'EllipticFunction::Delta', ('DST::integral', dict(arity=4))],
        inline=['GeodesicLineExact::Init'], rewrites=[(r'_cC4a\.data\(\)', r'_cC4a.p')], unwind=66,
        description='position on a geodesic line (elliptic integrals): output-mask frame, NaN rule, ranges'),
]


TRUSTED_BASE = [
    'cbmc 6.11.0 / goto-instrument --dfcc / minisat2; IEEE-754 binary64 semantics of cbmc equal those of the compiled code (x86-64 SSE2, no -ffast-math)',
    'extraction rules R1..R22 (incl. R5b, R9b) of vlib/cxx2c.py / vlib/tu.py preserve the meaning of the C++ constructs they rewrite; ghost captures only add assignments to ghost globals; job-specific rewrites (R16: operators of helper classes, container / stream accesses, member-object construction) are listed per function under extraction_rules, with the operator definitions they rely on checked textually (generated TU kept in out/tu, sha256 in evidence)',
    'clauses marked only=replace with src=purity / src=ghost exist for callers only: that a static / const function is a deterministic function of its arguments (uninterpreted functions for transit, transitdirect, Accumulator::Add / Sum) is ASSUMED from its frame (proved: it writes nothing else), and ghost records of calls are bookkeeping, not obligations of the callee',
    'shim/libm_models.h: exact models of remainder/remquo (by 720, 360 and 90; |x| < 2^52), ldexp, pow(10,k), sqrt(1/2), sqrt(3); range-only models of sin, cos, atan2, hypot, sqrt; other libm functions uninterpreted (deterministic); conformance-tested against glibc by tests/libm_conformance.c in setup.sh',
    'shim/verif_shim.h: std::string modelled as a buffer of VERIF_STRCAP bytes with explicit length; libstdc++ number parsing/printing not modelled',
    'message expressions of throw GeographicErr(...) are dropped by rule R7 (message text is never verified)',
]

SOURCE_COMMITS = []

NUMERIC = ('every clause is an accuracy statement about floating-point series / Newton / elliptic-integral code; no contract '
           'that cbmc can discharge relates the outputs to the defining mathematics (DESIGN.md section 6)')
NOT_BUILT = 'in reach of the technique (DESIGN.md section 5) but its contracts are not built yet at this commit'
NOT_APPLICABLE = {
    'C02': NUMERIC, 'C03': NUMERIC, 'C06': NUMERIC, 'C11': NUMERIC, 'C15': NUMERIC,
    'C17': NUMERIC + '; NearestNeighbor is a C++ template over user types that neither the C extraction nor the CBMC C++ front end can take',
   'C09': NUMERIC + '; its one discrete clause (a course that reaches a pole returns NaN longitude and area) lives in RhumbLine::GenPosition, whose body works on AuxAngle objects by value (temporaries, chained method calls) that the C extraction rules cannot express and the CBMC C++ front end cannot parse',
       
}

PROPS = {
    'C07': dict(
        level='other',
        level_text='Only the range / frame clauses of this (numeric) property are decided, by proof: Geocentric::IntReverse returns |lat| <= 90 and lon in [-180,180] (or NaN) '
                   'for every input in all of its regimes, writes exactly its outputs and the optional matrix (never dereferenced when absent), and writes no member.',
        level_note='Trusted: as C18; range-only models of sqrt, cbrt, hypot, atan2, cos; ellipsoid invariants assumed from the constructor. Round-trip accuracy, orthonormality, '
                   'least-magnitude height and LocalCartesian are not decided.',
        design_ref='DESIGN.md section 5, C07',
        explanation='Contract-based proof of range and frame clauses only; the numeric core (forward image of the reverse result is the original point to round-off, '
                    'rigid motion of LocalCartesian) cannot be expressed as a contract that cbmc can discharge: see DESIGN.md sections 1 and 6.',
        not_decided=['forward(reverse(P)) == P to round-off; reverse(forward) identity within nanometres', 'rotation matrix orthonormal', 'LocalCartesian is a rigid motion', 'height of least magnitude'],
    ),
    'C19': dict(
        level='other',
        level_text='Only the coefficient ADDRESSING of the harmonic sums is decided, by proof: the slot function of the packed triangular storage is the documented '
                   'layout, injective, and inside the vector sizes Csize/Ssize for every truncation; Csize/Ssize equal the mathematical counts without overflow '
                   'outside the pattern of finding F4. That the Clenshaw recurrences equal the defining series is numeric and not decided.',
        level_note='Trusted: as C18. Not decided: SphericalEngine::Value / Circle (templates with long floating-point recurrences), gradients, gravity / magnetic model assembly, NormalGravity.',
        design_ref='DESIGN.md section 5, C19',
        explanation='Contract-based proof of the storage addressing only (three functions); the numeric core of C19 (sums equal the defining series, gradient is the derivative, '
                    'circle evaluation agrees) cannot be expressed as a contract that cbmc can discharge: see DESIGN.md sections 1 and 6.',
        not_decided=['harmonic sum and gradient equal the defining series', 'CircularEngine agrees with direct evaluation', 'gravity / magnetic models reproduce the file coefficients', 'NormalGravity identities'],
    ),
    'C20': dict(
        level='proof',
        level_text='Geoid::height for every position and every header satisfying the constructor checks: all raster indices passed to the reader are inside the '
                   'range its wrap-around / pole reflection handles, no float->int overflow, NaN in gives NaN out, a thread-safe geoid writes no member; and the '
                   'history-independence lemma: two objects that differ only in their (consistent) cell cache return bit-identical heights; the index logic of the raster reader '
                   '(longitude wrap, pole reflection, area-cache addressing); and Geoid::CacheArea: for every requested area, every cached row (all rows: loop contract) is read from the '
                   'raster pixels rawval will later look for in it, no read runs past its raster row, rows are complete, a thread-safe object refuses (this found defect F14).',
        level_note='Trusted: as C18; the raster reader rawval is an ASSUMED deterministic function of its indices (iostream / vector<vector<>> are outside the extraction); '
                   'the class invariant (width even, height odd, resolutions) is assumed from the constructor. The binary reads and the vector storage of the area cache are a contract-only stand-in whose precondition is the specification. Interpolation identities, CacheAll, PGM header parsing are not decided.',
        design_ref='DESIGN.md section 5, C20',
        bounded=['Geoid::CacheArea: one job per raster size (720x361, 1440x721, 4320x2161, 8640x4321, 21600x10801 = the published geoid grids, and 24x13): all areas, all rows, '
                 'but not a symbolic raster size (that proof did not finish in 1500 s)'],
        not_decided=['bilinear / cubic interpolation identities (node values, linearity along edges, continuity)', 'CacheAll; the bytes actually read (stream I/O)',
                     'PGM header parsing and format rejection (iostream)', 'ConvertHeight round trip'],
    ),
    'C08': dict(
        level='proof',
        level_text='The discrete mechanisms of the polygon classes: the crossing-parity function for direct edges equals the parity of floor(lon2/360) - floor(lon1/360) '
                   'for all longitudes; the crossing function for inverse edges counts the prime-meridian crossing of the shorter way round; the final area reduction lands in '
                   'the documented interval for every accumulated value, crossing count and option, with the reverse / sign conventions and the odd-crossing half-area correction pinned on '
                   'the inputs where every step is exact; and the EDIT-HISTORY state machine of PolygonAreaT<Geodesic>: AddPoint, AddEdge, Compute, TestPoint, TestEdge each ask exactly the '
                   'geodesics the property describes (from the current vertex to the new one, from the last back to the first), add exactly those lengths / area terms / crossing counts, '
                   'TestPoint / TestEdge feed the same crossing total and conventions to the same reduction as AddPoint / AddEdge followed by Compute, and leave the object unchanged; '
                   'all discharged by cbmc.',
        level_note='Trusted: as C18 (exact remainder model for 360 and 720); ASSUMED contracts of the inverse solver (frame + record of the call), of the Accumulator instantiation of '
                   'AreaReduce, and purity of transit / transitdirect / Accumulator arithmetic (uninterpreted functions); the operator definitions of Accumulator.hpp that the rewrites '
                   'rely on are checked textually on every run. Value clauses of TestPoint / TestEdge are stated on small-integer terms (exact additions). That S12 sums to the area, '
                   'invariance under vertex rotation / longitude shifts, and additivity are not decided.',
        design_ref='DESIGN.md section 5, C08',
        bounded=['transitdirect parity clause: longitudes within +-4096 turns (1.47e6 degrees) in the quick tier (a restriction of the clause, all doubles in that range); +-2^30 turns in the thorough tier'],
        not_decided=['perimeter and area are those of the polygon (numeric: sums of inverse/direct solutions)',
                     'bit-for-bit equality of TestPoint/TestEdge with AddPoint/AddEdge + Compute (they differ by design: plain double sums vs the two-word accumulator)',
                     'invariances (first vertex, longitude shifts, cutting along a diagonal)', 'PolygonAreaT<GeodesicExact>, PolygonAreaT<Rhumb> instantiations'],
    ),
    'C01': dict(
        level='other',
        level_text='Only two discrete clauses of this (numeric) property are decided, by proof: returned azimuths, latitudes and (without unrolling) longitudes of '
                   'GeodesicLine::GenPosition lie in [-180,180] / [-90,90] for every line state and argument, via the contract of Math::atan2d / AngNormalize; '
                   'and Math::atan2d itself (quadrants, exact axes); plus the bookkeeping the direct problem rests on: Geodesic::GenDirect (DISTANCE_IN supplied automatically, same request '
                   'passed to the line, ranges of the outputs), the line constructors / LineInit (capability word, stored point, normalised azimuth) and the series coefficient '
                   'functions (tables consumed exactly, arrays in bounds). The accuracy claims are not decided by this technique.',
        level_note='Trusted: as C18 and C12; range-only libm models. Not decided: every accuracy / agreement clause, coefficient values, unrolled-longitude circuit count.',
        design_ref='DESIGN.md section 5, C01',
        explanation='Contract-based proof of the range clauses only (obligations listed under functions_under_contract); the numeric core of C01 '
                    '(end point lies on the true geodesic to 15 nm, solvers agree) cannot be expressed as a contract that cbmc can discharge: see DESIGN.md sections 1 and 6.',
        not_decided=['end point / azimuth / distance accuracy vs the true geodesic', 'series, exact, delegating and line forms agree', 'lon2 - lon1 counts circuits with LONG_UNROLL'],
    ),
    'C13': dict(
        level='proof',
        level_text='For every function under contract (enumerated in the evidence): memory safety, signed overflow, float->integer conversion range, division by zero, '
                   'only GeographicErr is thrown (every throw statement is checked at extraction; callee exceptions propagate), outputs are unchanged when it throws, '
                   'NaN arguments give NaN / INVALID without an exception -- for all inputs within the stated string capacity.',
        level_note='Trusted: as C18. The hundreds of public entry points that are not extracted, file readers (iostream), NearestNeighbor::Load, hangs (termination) are not decided; '
                   'message expressions are dropped except for their numeric conversions, substr positions and table reads (rule R7b).',
        design_ref='DESIGN.md section 5, C13',
        not_decided=['entry points not under contract (see functions_under_contract for the complete list of those that are)', 'malformed data files (Geoid/Gravity/Magnetic readers)',
                     'termination'],
    ),
    'C14': dict(
        level='proof',
        level_text='The sufficient frame condition for thread safety, for the functions under contract only: each const / static API function has a discharged '
                   '__CPROVER_assigns frame that contains no object member and no file-scope or function-local static, so concurrent calls share read-only state.',
        level_note='Trusted: as C18; C++11 thread-safe initialisation of function-local static const objects (rule R9). Schedules as such are not explored (cbmc sees sequential C); '
                   'classes outside the extraction (kissfft scratch buffer, sqrttable growth, singletons first touched concurrently) are not decided.',
        design_ref='DESIGN.md section 5, C14',
        not_decided=['interleavings as such', 'the const API of classes that are not extracted', 'AuxLatitude::Convert mutable coefficient cache (finding F6: see DESIGN section 7)'],
    ),
    'C12': dict(
        level='proof',
        level_text='For all 2^16 masks x all capability words x both arc modes: an output that was not requested or that the line lacks the capability '
                   'for is byte-for-byte untouched (conditional __CPROVER_assigns frame), a line that cannot locate the point returns NaN and writes nothing, '
                   'the const method writes no member; discharged by cbmc on the extracted GenPosition (series and exact). The capability word itself is under contract: '
                   'LineInit of both line classes stores caps | LATITUDE | AZIMUTH | LONG_UNROLL, the point, the azimuth and an undefined (NaN) third point; the constructors used by '
                   'DirectLine / ArcDirectLine / InverseLine store the third point through SetDistance / SetArc (NaN for the quantity the line cannot compute); '
                   'Geodesic::GenDirect supplies DISTANCE_IN automatically, asks the temporary line exactly what the caller asked and writes only the requested outputs.',
        level_note='Trusted: as C18, plus ASSUMED contracts of Geodesic::SinCosSeries, the elliptic-function / DST callees of the exact line and GeodesicExact::GenDirect. Value independence '
                   'beyond round-off of alternative evaluation paths, arc/distance consistency and third-point reproduction are numeric and not decided.',
        design_ref='DESIGN.md section 5, C12',
        not_decided=['values do not depend on the mask beyond round-off (numeric)', 'position by arc and by distance agree; stored third point reproduces the end point (numeric)',
                     'GenInverse mask logic'],
    ),
    'C10': dict(
        level='proof',
        level_text='Parser side: memory safety, index bounds and exception discipline of the DMS component parser and the angle/position decoders for '
                   'all strings up to the stated capacity; the DMS.hpp grammar of one piece stated on the string (alphabet, one decimal point and only in the last component, order of the degree / minute / second marks, '
                   'digits round each colon, at most three components, sign of the result); DMS::Decode after its symbol substitutions: pieces split immediately before internal signs, '
                   'flag of the sum, incompatible designators rejected and nothing else; alphabet lookup; hemisphere / coordinate-order logic of DecodeLatLon, DecodeAngle, DecodeAzimuth.',
        level_note='Trusted: as C18; libstdc++ number parsing/printing is not modelled (fraction values are arbitrary). Formatters (DMS::Encode, Utility::str, '
                   '*Representation), the encode->decode round trip, the unicode substitution table of DMS::Decode and the command-line tools are not decided.',
        design_ref='DESIGN.md section 5, C10',
        bounded=['DMS::InternalDecode: strings of at most 12 characters, loops fully unwound (bounded stand-in, not a proof for longer strings)'],
        not_decided=['formatter output and encode->decode round trip (ostringstream)', 'DMS::Decode symbol substitution and splitting at internal signs (std::string editing)',
                     'command-line tools: one output line per input line'],
    ),
    'C16': dict(
        level='proof',
        level_text='Bit-exact IEEE facts about the short floating-point primitives, for all arguments: TwoSum is an error-free transformation (float), '
                   'AngNormalize range / identity / sign / equivalence modulo 360, AngRound, LatFix, atan2d quadrants and exact axes, sincosd quadrant logic '
                   'and exact special values; the Accumulator operations (=, +=, -=, *=(int), *=(T), remainder, Add, Sum): frames, exactly one Add of the signed value, exact negation of both words, '
                   'reduction of the leading word only followed by one renormalising Add(0), NaN rules: discharged by cbmc (loop-free code over full-domain symbolic floats).',
        level_note='Trusted: exact models of remainder/remquo by 360/90 (conformance-tested against glibc), range-only models of sin/cos/atan2; fma in Accumulator::operator*=(T) modelled unfused (rounded product + rounded sum: its clauses use only exact products). '
                   'Accuracy in ulps of sind/cosd/tand/atan2d, taupf/tauf, and the Accumulator precision claim are not decided.',
        design_ref='DESIGN.md section 5, C16',
        not_decided=['sincosd/atan2d accuracy in ulps (libm accuracy is not modelled)', 'taupf/tauf compose to identity (Newton on transcendental functions)',
                     'Accumulator holds sums to twice working precision', 'Math::sum<double> exactness (needs binary128: thorough tier)'],
    ),
    'C04': dict(
        level='proof',
        level_text='UTM/UPS: zone selection rules (UPS outside [80S,84N), 6-degree zones, Norway, Svalbard) as inequalities on the normalised '
                   'longitude; documented coordinate rectangles; false origins and central meridian; hemisphere; NaN -> INVALID; throw => outputs '
                   'unchanged; EPSG round trips; all discharged by cbmc with the projections replaced by assumed frame contracts.',
        level_note='Trusted: as C18, plus ASSUMED contracts of TransverseMercator::Forward/Reverse and PolarStereographic::Forward/Reverse '
                   '(frame only). The 5 nm closure/inverse accuracy, convergence and scale values, and zone strings (strtol/ostringstream) are not decided.',
        design_ref='DESIGN.md section 5, C04',
        not_decided=['forward/reverse mutually inverse to 5 nm (numeric)', 'convergence and scale equal those of the projection beyond being passed through',
                     'DecodeZone / EncodeZone strings (libc strtol, ostringstream: outside the extraction)'],
    ),
    'C05': dict(
        level='proof',
        level_text='MGRS: structure/alphabet/tile containment of the encoder, acceptance conditions and tile-level values of the decoder, '
                   'row/band compatibility table, coordinate range checks, throw => outputs unchanged, memory safety: all obligations discharged by cbmc.',
        level_note='Trusted: as C18. Digit VALUES (truncation of x*1e6) and the band letter vs the TRUE latitude (needs the projection) are not decided.',
        design_ref='DESIGN.md section 5, C05',
        not_decided=['digit values equal truncation / prefix property', 'band letter agrees with the true latitude within 5 nm (numeric)'],
    ),
    'C18': dict(
        level='proof',
        level_text='Every obligation generated from the contracts of the grid-code encoders/decoders (alphabet membership, cell containment '
                   'stated as inequalities on the normalised position, length, NaN/INVALID routing, throw => outputs unchanged, memory safety, '
                   'integer overflow, float->int conversion range) is discharged by cbmc for all inputs, function by function, callees replaced by contracts.',
        level_note='Trusted: cbmc/minisat, the extraction rules, shim models of std::string and libm (exact remainder by 360, range-only otherwise); '
                   'strings bounded by VERIF_STRCAP; decimal digit VALUES of Georef/OSGB at precision > 2 are not decided in the quick tier.',
        design_ref='DESIGN.md section 5, C18',
        not_decided=['decimal minute digit values (Georef prec>2, OSGB prec>0) equal the truncation of the position: only alphabet/range is proved'],
    ),
}


def jobs_for(prop, tier):
    out = []
    for j in JOBS:
        if prop in j.props and (j.tier == 'quick' or tier == 'thorough'):
            out.append(j)
    return out
