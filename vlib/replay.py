"""replay.py -- replay a CBMC counterexample against the REAL library (DESIGN 3.6).

A sanitizer build (ASan + UBSan + float-cast-overflow) of /repo's current tree is made in a scratch
cache outside /repo and /verif; a generated C++ driver constructs the counterexample's arguments,
calls the real function, and re-evaluates the contract's ensures clauses natively.
"""
import os, re, json, hashlib, subprocess, shutil, tempfile, glob
from concurrent.futures import ThreadPoolExecutor
from . import tu as T, cxx2c as X

VERIF = T.VERIF
CXXFLAGS = ['-std=c++17', '-O1', '-g', '-fsanitize=address,undefined', '-fsanitize=float-cast-overflow',
            '-fno-sanitize-recover=all', '-fno-omit-frame-pointer', '-w', '-fno-access-control']


# class templates are replayed at the instantiation the library exports
# how the native driver obtains a valid object of a class before overwriting its data members with the counterexample's values
REPLAY_OBJECT = {
    'Geodesic': 'Geodesic %s(6378137.0, 1 / 298.257223563);',
    'GeodesicLine': 'GeodesicLine %s;',
    'GeodesicLineExact': 'GeodesicLineExact %s;',
    'GeodesicExact': 'GeodesicExact %s(6378137.0, 1 / 298.257223563);',
    'PolygonAreaT': 'PolygonAreaT<Geodesic> %s(Geodesic::WGS84());',
    'Accumulator': 'Accumulator<double> %s;',
    'Geocentric': 'Geocentric %s(6378137.0, 1 / 298.257223563);',
}
TRACE_CTYPE = {'double': 'double', 'float': 'float', '_Bool': '_Bool', 'bool': '_Bool', 'unsigned int': 'unsigned', 'unsigned': 'unsigned', 'signed int': 'int', 'int': 'int',
               'signed long int': 'long long', 'unsigned long int': 'unsigned long long', 'signed long long int': 'long long', 'unsigned long long int': 'unsigned long long',
               'char': 'char', 'signed char': 'char', 'unsigned char': 'unsigned'}


def _set_members(L, inp, prefix, objname):
    """overwrite the data members of a natively constructed object with the values of the counterexample (members that the trace does not
    mention keep the constructed, valid values)"""
    n = 0
    for key in sorted(inp):
        if not key.startswith(prefix + '.'):
            continue
        path = key[len(prefix) + 1:]
        if '$pad' in path or 'verif_opaque_' in path:
            continue
        ct = TRACE_CTYPE.get((inp[key].get('type') or '').replace('const ', '').strip())
        if ct is None:
            continue
        path = re.sub(r'\[(\d+)l*\]', r'[\1]', path)
        L.append('  VSET(%s.%s, %s);' % (objname, path, _lit(ct, inp[key])))
        n += 1
    return n


CPP_CLASS = {'PolygonAreaT': 'PolygonAreaT<Geodesic>', 'coeff': 'SphericalEngine::coeff'}


def obligation_name(r, f):
    return '%s/%s' % (r['job'], f.get('clause') or f['id'])


def cache_root():
    return os.path.join(os.environ.get('TMPDIR', '/tmp'), 'verif-replay-cache')


def tree_hash(repo):
    h = hashlib.sha256()
    for fn in sorted(glob.glob(os.path.join(repo, 'src', '*.cpp')) + glob.glob(os.path.join(repo, 'src', '*.hh')) +
                     glob.glob(os.path.join(repo, 'include', 'GeographicLib', '*.hpp'))):
        h.update(fn.encode())
        h.update(open(fn, 'rb').read())
    return h.hexdigest()[:20]


def sanlib(repo):
    """static sanitizer library of the current tree; cached by content hash (cache only, rebuilt when absent)"""
    key = tree_hash(repo)
    d = os.path.join(cache_root(), key)
    lib = os.path.join(d, 'libgeo_san.a')
    if os.path.exists(lib):
        return lib, d
    # drop older cache entries (disk is limited)
    if os.path.isdir(cache_root()):
        for o in os.listdir(cache_root()):
            shutil.rmtree(os.path.join(cache_root(), o), ignore_errors=True)
    os.makedirs(d, exist_ok=True)
    srcs = sorted(glob.glob(os.path.join(repo, 'src', '*.cpp')))
    inc = ['-I', os.path.join(VERIF, 'replay', 'include'), '-I', os.path.join(repo, 'include')]

    def cc(s):
        o = os.path.join(d, os.path.basename(s)[:-4] + '.o')
        p = subprocess.run(['g++'] + CXXFLAGS + inc + ['-c', s, '-o', o], stdout=subprocess.PIPE, stderr=subprocess.STDOUT)
        return p.returncode, o, p.stdout.decode(errors='replace')
    with ThreadPoolExecutor(max_workers=16) as ex:
        rs = list(ex.map(cc, srcs))
    bad = [r for r in rs if r[0] != 0]
    if bad:
        raise RuntimeError('replay build failed: ' + bad[0][2][-1500:])
    subprocess.run(['ar', 'rcs', lib] + [r[1] for r in rs], check=True)
    for r in rs:
        os.remove(r[1])
    return lib, d


def _bits(v):
    return int(v['binary'], 2)


def _lit(ctype, v):
    """C++ literal for a trace value of C type ctype"""
    b = v['binary']
    u = int(b, 2)
    if ctype == 'double':
        return 'bits2d(0x%016xULL)' % u
    if ctype == 'float':
        return 'bits2f(0x%08xU)' % u
    n = len(b)
    if ctype in ('_Bool', 'bool'):
        return 'true' if u else 'false'
    if ctype.startswith('unsigned') or ctype == 'size_t':
        return '%dULL' % u if n > 32 else '%dU' % u
    if u >= 1 << (n - 1):
        u -= 1 << n
    if ctype == 'char':
        return '(char)%d' % u
    if n > 32:
        return '%dLL' % u if u > -(1 << 63) else '(-9223372036854775807LL-1)'
    return '%d' % u if u > -(1 << 31) else '(-2147483647-1)'


def _logical_lines(text):
    out, cur = [], ''
    for l in text.split('\n'):
        if l.endswith('\\'):
            cur += l[:-1] + ' '
        else:
            out.append(cur + l)
            cur = ''
    return out


def gen_driver(proj, r, f, fi, contract, strcap):
    """C++ driver text, or None if the job has no generic replay (custom harness without in_* inputs)"""
    inp = f.get('trace_inputs') or {}
    cls = fi.cls
    L = ['#include <GeographicLib/%s.hpp>' % T.HEADER_OF.get(cls, cls), '#include <cstdio>', '#include <cstdint>', '#include <exception>',
         '#define VERIF_STRCAP %d' % strcap, '#include "replay_shim.h"', 'using namespace GeographicLib;',
         'static double bits2d(uint64_t u){ double d; std::memcpy(&d,&u,8); return d; }',
         'static float bits2f(uint32_t u){ float d; std::memcpy(&d,&u,4); return d; }']
    # ghost section of the contract (macros, static tables, ghost variables)
    done = set()

    def ghosts(cc):
        if cc.path in done:
            return
        done.add(cc.path)
        for u in cc.uses:
            ghosts(T.Contract(T.contract_path(u)))
        L.append(re.sub(r'^#line.*$', '', cc.emit_ghost(), flags=re.M))
    for spec in r.get('replace_contracts', []):
        ghosts(T.Contract(T.contract_path(spec)))
    ghosts(contract)
    # ghost captures of locals (R21): declared so that the clauses compile; they are observable natively only when the job supplies a
    # replay_ghost statement that sets them from the *specification* (e.g. d = remquo(x, 90)); otherwise clauses mentioning them are skipped
    capnames = [g[0] for g in contract.captures] + [g[1] for g in contract.captures_before] + [g[0] for g in contract.captures_end]
    captypes = [g[3] for g in contract.captures] + [g[3] for g in contract.captures_before] + [g[2] for g in contract.captures_end]
    declared = '\n'.join(L)
    for gname, ctype in zip(capnames, captypes):
        if not re.search(r'^[ \t]*(?:static\s+)?(?:unsigned\s+|long\s+)*(?:int|double|float|unsigned|long|_Bool|bool|size_t|char)\b[^;()#]*\b%s\b\s*[;,=]' % re.escape(gname), declared, re.M):
            L.append('static %s %s;' % (ctype.replace('_Bool', 'bool'), gname))
    rg_text = ' '.join(r.get('replay_ghost', []))
    unobservable = [g for g in capnames if not re.search(r'\b%s\s*=' % re.escape(g), rg_text)]
    L.append('#include <type_traits>')
    L.append('#define VSET(lv, val) do { auto* p_ = const_cast<std::remove_const<std::remove_reference<decltype(lv)>::type>::type*>(&(lv)); *p_ = (val); } while (0)')
    # enumerators / integral constants of the class (and of the classes the job lists), visible unqualified as in the C translation unit
    seen_c = set()
    for ccls in [cls] + [c.lstrip('<') for c in r.get('const_classes', [])]:
        try:
            cci = proj.classinfo(ccls, 'double')
        except Exception:
            continue
        for cn, cv in cci.consts.items():
            if cv[0] == 'enum' and cn not in seen_c:
                seen_c.add(cn)
                L.append('static const unsigned %s = (unsigned)%s::%s;' % (cn, CPP_CLASS.get(ccls, ccls), cn))
    L.append('int main() {')
    for k in ('verif_ghost_idx', 'verif_ghost_idx2', 'verif_ghost_idx3', 'verif_ghost_idx4'):
        if k in inp:
            L.append('  %s = %dULL;' % (k, _bits(inp[k])))
    for k in ('verif_ghost_int', 'verif_ghost_int2'):
        if k in inp:
            L.append('  %s = %s;' % (k, _lit('int', inp[k])))
    call_args = []
    post = []
    if fi.is_method:
        if cls not in REPLAY_OBJECT:
            return None
        L.append('  ' + REPLAY_OBJECT[cls] % 'self_obj')
        _set_members(L, inp, 'in_self', 'self_obj')
        L.append('  auto* self = &self_obj;')
    for p in fi.params:
        n = 'in_' + p.name
        if p.kind == 'obj_in' and 'struct ' in p.ctype:
            ocls = p.ctype.replace('const', '').replace('*', '').replace('struct', '').strip()
            if ocls not in REPLAY_OBJECT:
                return None
            L.append('  ' + REPLAY_OBJECT[ocls] % (p.name + '_obj'))
            _set_members(L, inp, n, p.name + '_obj')
            L.append('  auto* %s = &%s_obj;' % (p.name, p.name))
            call_args.append(p.name + '_obj')
            continue
        if p.kind == 'val':
            if n not in inp:
                # not in the (sliced) trace: the value is irrelevant to the failure; use zero
                inp[n] = dict(binary='0' * 64 if p.ctype in ('double', 'long long', 'unsigned long long', 'size_t', 'long') else '0' * 32 if p.ctype in ('int', 'unsigned', 'float') else '0' * 8, data='0')
            L.append('  %s %s = %s;' % (p.ctype.replace('_Bool', 'bool'), p.name, _lit(p.ctype, inp[n])))
            call_args.append(p.name)
        elif p.kind == 'ref':
            bt = p.ctype.rstrip('* ').strip()
            if n not in inp:
                inp[n] = dict(binary='0' * 64 if bt in ('double', 'long long', 'unsigned long long', 'size_t', 'long') else '0' * 32 if bt in ('int', 'unsigned', 'float') else '0' * 8, data='0')
            cppbase = X.norm_type(p.cpptype).rstrip('&').strip()
            if cppbase in ('real', 'T'):
                cppbase = 'double'
            if cppbase not in ('int', 'unsigned', 'unsigned int', 'bool', 'char', 'long long', 'unsigned long long', 'long', 'double', 'float', 'size_t', 'short'):
                # an enum of the class: the real object has the enum type, the clauses see it as int
                L.append('  %s::%s %s_obj = (%s::%s)(%s); int* %s = reinterpret_cast<int*>(&%s_obj);' % (cls, cppbase, p.name, cls, cppbase, _lit('int', inp[n]), p.name, p.name))
            else:
                L.append('  %s %s_obj = %s; %s* %s = &%s_obj;' % (bt.replace('_Bool', 'bool'), p.name, _lit(bt, inp[n]), bt.replace('_Bool', 'bool'), p.name, p.name))
            call_args.append('%s_obj' % p.name)
        elif p.kind in ('str_in', 'str_out'):
            ln = inp.get(n + '.len')
            if ln is None:
                return None
            length = _bits(ln)
            bs = []
            for i in range(length):
                v = inp.get('%s_buf[%dl]' % (n, i))
                bs.append(_bits(v) if v else 0)
            L.append('  static const unsigned char %s_bytes[] = {%s};' % (p.name, ', '.join(str(b) for b in bs + [0])))
            L.append('  std::string %s_str((const char*)%s_bytes, %d);' % (p.name, p.name, length))
            L.append('  char %s_buf[VERIF_STRCAP + 64] = {0}; std::memcpy(%s_buf, %s_str.data(), %s_str.size());' % (p.name, p.name, p.name, p.name))
            L.append('  vstr %s_v = { %s_buf, (int)%s_str.size() }; vstr* %s = &%s_v;' % (p.name, p.name, p.name, p.name, p.name))
            call_args.append('%s_str' % p.name)
            if p.kind == 'str_out':
                post.append('  %s_v.len = (int)%s_str.size(); std::memset(%s_buf, 0, sizeof %s_buf); std::memcpy(%s_buf, %s_str.data(), %s_str.size() < sizeof %s_buf - 1 ? %s_str.size() : sizeof %s_buf - 1);'
                            % ((p.name,) * 10))
        elif p.kind == 'ptr' and p.ctype.replace(' ', '') == 'constchar*':
            bs = []
            i = 0
            while ('%s[%dl]' % (n, i)) in inp:
                bs.append(_bits(inp['%s[%dl]' % (n, i)]))
                i += 1
            if not bs:
                return None
            L.append('  static const unsigned char %s_bytes[] = {%s};' % (p.name, ', '.join(str(b) for b in bs + [0])))
            L.append('  const char* %s = (const char*)%s_bytes;' % (p.name, p.name))
            call_args.append(p.name)
        else:
            return None
    # aliases so that harness-level statements (in_* names) can be replayed verbatim
    for p in fi.params:
        if p.kind == 'val':
            L.append('  auto& in_%s = %s;' % (p.name, p.name))
        elif p.kind == 'ref':
            L.append('  auto& in_%s = %s_obj;' % (p.name, p.name))
        elif p.kind in ('str_in', 'str_out'):
            L.append('  vstr& in_%s = %s_v; char* in_%s_buf = %s_buf;' % (p.name, p.name, p.name, p.name))
    L.append('#define __CPROVER_assume(c) do { if (!(c)) std::printf("ASSUMPTION-FALSE %s\\n", #c); } while (0)')
    L.append('#define __CPROVER_assert(c, id) std::printf("CLAUSE %s %d\\n", id, (int)(c))')
    if contract.harness_pre is not None:
        L.append('#ifdef VERIF_EVAL_CLAUSES')
        L.extend(contract.harness_pre[2])
        L.append('#endif')
    # snapshots for __CPROVER_old
    ens = []
    for c in contract.clauses:
        if (c[4].get('only') or '').startswith('replace'):
            continue   # clauses that exist only for callers (ghost records, determinism): not obligations of this function
        txt = '\n'.join(c[2])
        for m in re.finditer(r'__CPROVER_ensures\s*\(', txt):
            e = X.match_close(txt, m.end() - 1)
            ens.append((c[3], txt[m.end():e]))
    # expand the contract's own macros first (they may hide __CPROVER_old / __CPROVER_return_value)
    try:
        gtxt = re.sub(r'^#line.*$', '', contract.emit_ghost(), flags=re.M)
        defs = '\n'.join(l for l in _logical_lines(gtxt) if l.lstrip().startswith('#'))
        probe = defs + '\n' + '\n'.join('VERIF_CLAUSE_%d: %s' % (k, ' '.join(e.split())) for k, (cid, e) in enumerate(ens)) + '\n'
        pp = subprocess.run(['gcc', '-E', '-P', '-x', 'c', '-'], input=probe.encode(), stdout=subprocess.PIPE, stderr=subprocess.PIPE)
        if pp.returncode == 0:
            exp = {}
            for l in pp.stdout.decode().split('\n'):
                m = re.match(r'VERIF_CLAUSE_(\d+): (.*)$', l)
                if m:
                    exp[int(m.group(1))] = m.group(2)
            if len(exp) == len(ens):
                ens = [(cid, exp[k]) for k, (cid, e) in enumerate(ens)]
    except Exception:
        pass
    olds = []
    ens2 = []
    for cid, e in ens:
        while True:
            m = re.search(r'__CPROVER_old\s*\(', e)
            if not m:
                break
            pc = X.match_close(e, m.end() - 1)
            inner = e[m.end():pc]
            name = 'old_%d' % len(olds)
            olds.append((name, inner))
            e = e[:m.start()] + name + e[pc + 1:]
        e = e.replace('__CPROVER_return_value', 'ret_')
        ens2.append((cid, e))
    for name, inner in olds:
        L.append('  auto %s = (%s);' % (name, inner))
    mname = fi.qualname.split('::')[1]
    if fi.is_method and mname == cls.replace('PolygonAreaT', 'PolygonAreaT'):
        return None   # constructors are not replayed (the object is what is being built)
    call = ('self_obj.%s(%s)' % (mname, ', '.join(call_args))) if fi.is_method else '%s::%s(%s)' % (CPP_CLASS.get(cls, cls), mname, ', '.join(call_args))
    if fi.ret_ctype != 'void':
        L.append('  %s ret_ = %s;' % (fi.ret_ctype.replace('_Bool', 'bool'), '0'))
        call = 'ret_ = ' + call
    L.append('  try { %s; }' % call)
    L.append('  catch (const GeographicErr& e) { verif_thrown = 1; std::printf("EXCEPTION GeographicErr: %s\\n", e.what()); }')
    L.append('  catch (const std::exception& e) { verif_thrown_other = 1; std::printf("EXCEPTION other: %s\\n", e.what()); }')
    L.append('  catch (...) { verif_thrown_other = 1; std::printf("EXCEPTION unknown\\n"); }')
    L.extend(post)
    # native ghost hooks
    for c in r.get('replay_ghost', []):
        L.append('  ' + c)
    if contract.harness_post is not None:
        L.append('#ifdef VERIF_EVAL_CLAUSES')
        L.extend(contract.harness_post[2])
        L.append('#endif')
    L.append('#ifdef VERIF_EVAL_CLAUSES')
    for cid, e in ens2:
        hid = [g for g in unobservable if re.search(r'\b%s\b' % re.escape(g), e)]
        if hid:
            L.append('  std::printf("CLAUSE %s not-observable-natively (mentions the ghost capture %s of a local variable)\\n");' % (cid, ', '.join(hid)))
            continue
        L.append('  std::printf("CLAUSE %s %%d\\n", (int)(%s));' % (cid, ' '.join(e.split())))
    L.append('#endif')
    L.append('  std::printf("DONE\\n"); return 0; }')
    return '\n'.join(L) + '\n'


def make_replay(proj, prop, r, f, workdir):
    """writes out/replays/<...>.json ; returns (path, verdict)"""
    os.makedirs(os.path.join(VERIF, 'out', 'replays'), exist_ok=True)
    name = re.sub(r'[^\w.-]+', '_', '%s-%s-%s' % (prop, r['job'], (f.get('clause') or f['id']).split(':')[-1]))
    path = os.path.join(VERIF, 'out', 'replays', name + '.json')
    return make_replay_inner(proj, prop, r, f, workdir, path)


def make_replay_inner(proj, prop, r, f, workdir, path, requeried=False):
    name = os.path.basename(path)[:-5] + ('.rq' if requeried else '')
    rec = dict(property=prop, job=r['job'], function=r['func'], obligation=obligation_name(r, f), cbmc_property=f['id'],
               description=f['desc'], location='%s:%s' % (f['file'], f['line']), clause=f.get('clause'),
               clause_text=None, counterexample_inputs={k: v['data'] for k, v in (f.get('trace_inputs') or {}).items()},
               counterexample_bits={k: v['binary'] for k, v in (f.get('trace_inputs') or {}).items()},
               cbmc_trace_tail=f.get('trace_tail'), checker_cmd=r.get('checker_cmd'), verdict='no-failing-input-found',
               native_output=None, driver=None, requeried=requeried)
    verdict = 'no-failing-input-found'
    try:
        if not requeried and r.get('fi') is not None and r.get('jobobj') is not None:
            # the formula is sliced for speed, so the trace may lack inputs: ask again for this one obligation, unsliced
            names = ['in_' + p.name for p in r['fi'].params if p.kind in ('val', 'ref')] + ['in_%s.len' % p.name for p in r['fi'].params if p.kind in ('str_in', 'str_out')]
            if any(n not in (f.get('trace_inputs') or {}) for n in names):
                from . import runner
                f2 = runner.requery(proj, r['jobobj'], workdir, f['id'], None)
                if f2 is not None and f2.get('trace_inputs'):
                    f = dict(f, trace_inputs=f2['trace_inputs'], trace_tail=f2.get('trace_tail'))
                    rec['counterexample_inputs'] = {k: v['data'] for k, v in f['trace_inputs'].items()}
                    rec['counterexample_bits'] = {k: v['binary'] for k, v in f['trace_inputs'].items()}
        contract = T.Contract(r['contract_path'])
        if f.get('clause'):
            rec['clause_text'] = contract.clause_text(f['clause'].split(':', 1)[1])
        fi = r.get('fi')
        drv = gen_driver(proj, r, f, fi, contract, r.get('strcap', 32)) if fi is not None else None
        if drv is None:
            rec['native_output'] = 'no generic native replay for this job (hand-written harness or method); the counterexample inputs above are from the verifier'
        else:
            rec['driver'] = drv
            lib, d = sanlib(proj.repo)
            src = os.path.join(workdir, name + '.cpp')
            exe = os.path.join(workdir, name + '.exe')
            open(src, 'w').write(drv)
            inc = ['-I', os.path.join(VERIF, 'replay', 'include'), '-I', os.path.join(proj.repo, 'include'), '-I', os.path.join(VERIF, 'replay')]
            out = ''
            for flags in (['-DVERIF_EVAL_CLAUSES'], []):
                p = subprocess.run(['g++'] + CXXFLAGS + flags + inc + [src, lib, '-o', exe], stdout=subprocess.PIPE, stderr=subprocess.STDOUT)
                if p.returncode == 0:
                    break
                out = 'driver build with %s failed:\n%s\n' % (flags, p.stdout.decode(errors='replace')[-1500:])
            if p.returncode == 0:
                env = dict(os.environ, ASAN_OPTIONS='detect_leaks=0', UBSAN_OPTIONS='print_stacktrace=1')
                try:
                    q = subprocess.run([exe], stdout=subprocess.PIPE, stderr=subprocess.STDOUT, timeout=60, env=env)
                    txt = q.stdout.decode(errors='replace')
                    rc = q.returncode
                except subprocess.TimeoutExpired:
                    txt, rc = 'native run timed out (60 s): hang', 'timeout'
                out += txt[-6000:]
                rec['native_exit'] = rc
                cid = (f.get('clause') or ':').split(':', 1)[1]
                clause_false = re.search(r'^CLAUSE %s 0$' % re.escape(cid), txt, re.M) is not None if cid else False
                sanit = ('runtime error' in txt) or ('AddressSanitizer' in txt) or (rc not in (0,)) 
                if clause_false or (sanit and not f.get('clause')) or (sanit and 'DONE' not in txt):
                    verdict = 'reproduced'
                elif sanit:
                    verdict = 'reproduced'
            rec['native_output'] = out
    except Exception as e:
        rec['native_output'] = 'replay machinery error: %r' % (e,)
    if verdict != 'reproduced' and not rec.get('requeried') and getattr(r.get('jobobj'), 'replay_domain', None):
        # the counterexample may live in the freedom of an assumed callee contract: ask the verifier for one
        # inside the domain where the callee models are exact, and replay that instead
        from . import runner
        f2 = runner.requery(proj, r['jobobj'], workdir, f['id'], r['jobobj'].replay_domain)
        if f2 is not None:
            f2 = dict(f2)
            r2 = dict(r)
            rec2_path, v2 = make_replay_inner(proj, prop, r2, f2, workdir, path, requeried=True)
            return rec2_path, v2
    rec['verdict'] = verdict
    with open(path, 'w') as fo:
        json.dump(rec, fo, indent=1)
    return path, verdict


def replay_file(prop, path):
    """re-run a stored replay (./check <ID> --replay FILE): rebuild the driver against the current tree"""
    rec = json.load(open(path))
    print('obligation :', rec['obligation'])
    print('clause     :', rec.get('clause_text'))
    print('inputs     :', json.dumps(rec.get('counterexample_inputs'))[:1500])
    if not rec.get('driver'):
        print(rec.get('native_output'))
        print('verdict    :', rec['verdict'])
        return 1
    proj = T.Project()
    wd = tempfile.mkdtemp(prefix='verif-replay-')
    try:
        lib, d = sanlib(proj.repo)
        src = os.path.join(wd, 'drv.cpp')
        exe = os.path.join(wd, 'drv.exe')
        open(src, 'w').write(rec['driver'])
        inc = ['-I', os.path.join(VERIF, 'replay', 'include'), '-I', os.path.join(proj.repo, 'include'), '-I', os.path.join(VERIF, 'replay')]
        for flags in (['-DVERIF_EVAL_CLAUSES'], []):
            p = subprocess.run(['g++'] + CXXFLAGS + flags + inc + [src, lib, '-o', exe], stdout=subprocess.PIPE, stderr=subprocess.STDOUT)
            if p.returncode == 0:
                break
        if p.returncode != 0:
            print(p.stdout.decode(errors='replace')[-2000:])
            return 2
        q = subprocess.run([exe], stdout=subprocess.PIPE, stderr=subprocess.STDOUT, env=dict(os.environ, ASAN_OPTIONS='detect_leaks=0'))
        txt = q.stdout.decode(errors='replace')
        print(txt[-4000:])
        cid = (rec.get('clause') or ':').split(':', 1)[1]
        bad = (cid and re.search(r'^CLAUSE %s 0$' % re.escape(cid), txt, re.M)) or 'runtime error' in txt or 'AddressSanitizer' in txt or q.returncode != 0
        print('verdict    :', 'reproduced on the current tree' if bad else 'not reproduced on the current tree')
        return 1 if bad else 0
    finally:
        shutil.rmtree(wd, ignore_errors=True)
