"""tu.py -- assemble one C translation unit per verification job from /repo's working tree.

  shim + class constants (copied from header/source text, rule R12) + struct for `this` (R11)
  + callee prototypes carrying their contracts + helper bodies that are inlined
  + the extracted function with its contract spliced in + harness
"""
import os, re
from . import cxx2c as X
from .cxx2c import ExtractError

REPO = os.environ.get('VERIF_REPO', '/repo')
VERIF = os.path.dirname(os.path.dirname(os.path.abspath(__file__)))


TIER = 'quick'   # set by check


class Project:
    def __init__(self, repo=REPO):
        self.repo = repo
        self._clean = {}
        self._raw = {}
        self._classes = {}

    def raw(self, rel):
        if rel not in self._raw:
            with open(os.path.join(self.repo, rel)) as f:
                self._raw[rel] = f.read()
        return self._raw[rel]

    def clean(self, rel):
        if rel not in self._clean:
            txt = X.eval_pp(X.strip_comments(self.raw(rel)))
            if os.path.basename(rel) in ('PolygonArea.hpp', 'PolygonArea.cpp'):
                # R22: the instantiation under contract is PolygonAreaT<Geodesic>: the template parameter is read as that class
                txt = re.sub(r'\bGeodType\b', 'Geodesic', txt)
            self._clean[rel] = txt
        return self._clean[rel]

    def classinfo(self, cls, real='double'):
        key = (cls, real)
        if key not in self._classes:
            hdr = 'include/GeographicLib/%s.hpp' % HEADER_OF.get(cls, cls)
            ci = X.parse_class(self.clean(hdr), cls, real)
            # R22 template instantiation: the instantiation under contract is stated here (PolygonAreaT<Geodesic>, Accumulator<real>)
            for nm, (typ, arr, mut) in list(ci.members.items()):
                if typ in TEMPLATE_INSTANCE:
                    ci.members[nm] = (TEMPLATE_INSTANCE[typ], arr, mut)
            self._classes[key] = ci
        return self._classes[key]


CLASS_TEMPLATE_T = {'Accumulator'}   # class templates over `typename T`, verified for T = real
TEMPLATE_INSTANCE = {'GeodType': 'Geodesic', 'Accumulator<>': 'Accumulator'}
HEADER_OF = {'GeographicErr': 'Constants', 'PolygonAreaT': 'PolygonArea', 'DAuxLatitude': 'DAuxLatitude', 'coeff': 'SphericalEngine'}
SOURCE_OF.update({'PolygonAreaT': 'PolygonArea'}) if False else None
SOURCE_OF = {'PolygonAreaT': 'PolygonArea', 'coeff': 'SphericalEngine'}


def header_of(cls):
    return 'include/GeographicLib/%s.hpp' % HEADER_OF.get(cls, cls)


def source_of(cls):
    return 'src/%s.cpp' % SOURCE_OF.get(cls, cls)


# ----------------------------------------------------------------------------- contract files
class Contract:
    """contracts/<cname>.c :  sections introduced by  /*@ <kind> ... */  lines.
         /*@ ghost */            file-scope declarations (ghost variables, spec functions)
         /*@ clause <id> [props=..] [src=..] */   one or more contract clause lines follow
         /*@ loop <n> <id> */    loop contract for the n-th loop of the body (1-based, textual order)
         /*@ harness */          replaces the generated harness
         /*@ harness-pre */      statements placed before the call in the generated harness (assumptions on inputs)
         /*@ harness-post */     statements placed after the call
    """
    def __init__(self, path):
        self.path = path
        self.ghost = []       # (line, text)
        self.clauses = []     # (line, id, attrs, [text lines])
        self.loops = {}       # n -> list of (line, id, [text lines])
        self.harness = None   # (line, text)
        self.harness_pre = None
        self.harness_post = None
        self.ghost_init = None
        self.captures = []    # (ghost name, local name, expr, ctype)
        self.assert_attrs = {}
        self.captures_before = []
        self.captures_end = []
        self.alt_harness = {}
        self.prototype = None
        self.uses = []        # other contract files whose ghost declarations this one refers to
        self.markers = []     # (line, id)
        if not os.path.exists(path):
            return
        with open(path) as f:
            lines = f.read().split('\n')
        cur = None
        for no, ln in enumerate(lines, 1):
            m = re.match(r'\s*/\*@\s*(\w[\w-]*)\s*(.*?)\s*\*/\s*$', ln)
            if m:
                kind, rest = m.group(1), m.group(2)
                if kind == 'ghost':
                    cur = ('ghost', no + 1, [])
                    self.ghost.append(cur)
                elif kind == 'clause':
                    parts = rest.split()
                    cid = parts[0]
                    attrs = dict(p.split('=', 1) for p in parts[1:] if '=' in p)
                    cur = ('clause', no + 1, [], cid, attrs)
                    self.clauses.append(cur)
                    self.markers.append((no, cid))
                elif kind == 'loop':
                    parts = rest.split()
                    n = int(parts[0])
                    cid = parts[1] if len(parts) > 1 else 'loop%d' % n
                    cur = ('loop', no + 1, [], cid)
                    self.loops.setdefault(n, []).append(cur)
                    self.markers.append((no, cid))
                elif kind == 'harness':
                    cur = ('harness', no + 1, [])
                    self.harness = cur
                    self.markers.append((no, 'harness'))
                elif kind == 'harness-alt':
                    cur = ('harness-alt', no + 1, [])
                    self.alt_harness[rest.split()[0]] = cur
                    self.markers.append((no, 'harness-alt'))
                elif kind == 'harness-pre':
                    cur = ('harness-pre', no + 1, [])
                    self.harness_pre = cur
                    self.markers.append((no, 'harness-pre'))
                elif kind == 'harness-post':
                    cur = ('harness-post', no + 1, [])
                    self.harness_post = cur
                    self.markers.append((no, 'harness-post'))
                elif kind == 'prototype':
                    # hand-written C prototype of a function that exists only as a contract (an instantiation / operator the extractor does not
                    # produce): used with Job(extra_replace=[...])
                    cur = ('prototype', no + 1, [])
                    self.prototype = cur
                elif kind == 'uses':
                    self.uses.extend(rest.split())
                    cur = None
                elif kind == 'capture':
                    # /*@ capture <local>:<ctype> [<ghost>=<expr>@<local>:<ctype>] ... */  (rule R21)
                    for item in re.findall(r'(?:(\w+)=([^@\s]+)@)?(\w+):([\w ]+?)(?=\s+\w+[:=]|\s*$)', rest):
                        gname, expr, local, ctype = item
                        self.captures.append((gname or 'cap_' + local, local, expr or local, ctype.strip()))
                    cur = None
                elif kind == 'capture-end':
                    # R21c: ghost assignments placed at the very end of the function body (inside its scope, so locals are visible)
                    for gname, expr, ctype in re.findall(r'(\w+)=(\S+?):([\w ]+?)(?=\s+\w+=|\s*$)', rest.strip()):
                        self.captures_end.append((gname, expr, ctype.strip()))
                    cur = None
                elif kind == 'capture-before':
                    # R21b: ghost assignments placed immediately before the first statement that starts with the anchor text
                    anchor, _, items = rest.partition('::')
                    for gname, expr, ctype in re.findall(r'(\w+)=(\S+?):([\w ]+?)(?=\s+\w+=|\s*$)', items.strip()):
                        self.captures_before.append((anchor.strip(), gname, expr, ctype.strip()))
                    cur = None
                elif kind == 'ghost-init':
                    cur = ('ghost-init', no + 1, [])
                    self.ghost_init = cur
                elif kind == 'assert':
                    # marker inside a harness-pre / harness-post section: names the assertions that follow
                    parts = rest.split()
                    self.markers.append((no, parts[0]))
                    self.assert_attrs[parts[0]] = dict(p.split('=', 1) for p in parts[1:] if '=' in p)
                    if cur is not None:
                        cur[2].append('')
                elif kind == 'end':
                    cur = None
                else:
                    raise ExtractError('%s:%d: unknown marker %s' % (path, no, kind))
                continue
            if cur is not None:
                cur[2].append(ln)

    def clause_at(self, line):
        cid = None
        for ln, c in self.markers:
            if ln <= line:
                cid = c
            else:
                break
        return cid

    def clause_text(self, cid):
        for c in self.clauses:
            if c[3] == cid:
                return '\n'.join(c[2]).strip()
        for n, ls in self.loops.items():
            for c in ls:
                if c[3] == cid:
                    return '\n'.join(c[2]).strip()
        return None

    def clause_attrs(self, cid):
        for c in self.clauses:
            if c[3] == cid:
                return c[4]
        return {}

    def emit_clauses(self, exclude=(), mode='enforce'):
        out = []
        for c in self.clauses:
            if c[3] in exclude:
                continue
            only = c[4].get('only')
            if only:
                # enforce | replace (any caller) | replace-ghost (callers that use the ghost bookkeeping) | replace-pure (callers that do not)
                ok = (only == mode) or (only == 'replace' and mode.startswith('replace'))
                if not ok:
                    continue
            if c[4].get('tier') == 'thorough' and TIER != 'thorough' and mode == 'enforce':
                continue
            out.append('#line %d "%s"' % (c[1], self.path))
            out.extend(c[2])
        return '\n'.join(out)

    def emit_ghost(self):
        out = []
        for g in self.ghost:
            out.append('#line %d "%s"' % (g[1], self.path))
            out.extend(g[2])
        return '\n'.join(out)


def contract_path(cname):
    return os.path.join(VERIF, 'contracts', cname + '.c')


# ----------------------------------------------------------------------------- constants (R12)
def _const_expr(expr, tr, own_cls, ci_names, prefix):
    """translate an initialiser expression: casts, names; identifiers of the class's own constant set
    get the prefix (for foreign classes)"""
    e = tr.rule_numeric_limits(expr)
    e = tr.rule_casts(e)
    e = tr.rule_names(e)
    e = tr.rule_real(e)
    if prefix:
        e = re.sub(r'(?<![\w.])([A-Za-z_]\w*)\b', lambda m: (prefix + m.group(1)) if m.group(1) in ci_names else m.group(1), e)
    return e


def emit_constants(proj, cls, own, real='double', report=None):
    """All compile-time constants of class `cls`: from the header (static const/constexpr scalars, enums)
    and from the source file (`const T Cls::name[] = {...};`, `const char* const Cls::name = "..."`).
    own=True: unqualified names (+ #define Cls_name name); own=False: Cls_name only."""
    ci = proj.classinfo(cls, real)
    tr = X.Translator(cls, real, {}, {}, report)
    prefix = '' if own else cls + '_'
    names = set(ci.consts)
    out = ['/* constants of %s (R12: copied from %s) */' % (cls, header_of(cls))]
    for en in ci.enum_names:
        out.append('typedef int %s%s; /* enum */' % (prefix, en))
    src_defs = {}
    srcrel = source_of(cls)
    if os.path.exists(os.path.join(proj.repo, srcrel)):
        clean = proj.clean(srcrel)
        for m in re.finditer(r'\bconst\s+([\w:\s\*]+?)\s+' + re.escape(cls) + r'::(\w+)\s*(\[[^\]]*\])?\s*=\s*', clean):
            st = m.end()
            semi = X.Translator._stmt_end(clean, st)
            src_defs[m.group(2)] = (X.norm_type(m.group(1)), m.group(3) or '', clean[st:semi])
    scalar_first = sorted(ci.consts.items(), key=lambda kv: 0 if (kv[1][0] == 'enum' or kv[1][0] in ('int', 'unsigned', 'unsigned int', 'bool', 'short', 'char', 'size_t', 'real', 'double', 'float', 'long long', 'unsigned long long', 'long')) else 1)
    for nm, (typ, val) in scalar_first:
        if typ == 'enum' or typ in ('int', 'unsigned', 'unsigned int', 'bool', 'short', 'char', 'size_t'):
            if val is None and nm in src_defs:
                val = src_defs[nm][2]
            if val is None:
                continue
            e = _const_expr(val, tr, cls, names, prefix)
            if typ == 'unsigned' and not own:
                pass
            out.append('enum { %s%s = %s };' % (prefix, nm, re.sub(r'\s+', ' ', e)))
        elif typ in ('real', 'double', 'float', 'long long', 'unsigned long long', 'long', 'long double'):
            if val is None and nm in src_defs:
                val = src_defs[nm][2]
            if val is None:
                continue
            e = _const_expr(val, tr, cls, names, prefix)
            ct = real if typ == 'real' else typ
            out.append('static const %s %s%s = %s;' % (ct, prefix, nm, re.sub(r'\s+', ' ', e)))
        elif nm in src_defs:
            t, arr, init = src_defs[nm]
            e = _const_expr(init, tr, cls, names, prefix)
            t = t.replace('real', real)
            t = re.sub(r'\bMath_real\b', real, t)
            if 'char' in t and '*' in t:
                out.append('static const char * const %s%s%s = %s;' % (prefix, nm, arr, e))
            else:
                out.append('static const %s %s%s%s = %s;' % (t, prefix, nm, arr, e))
        if own:
            out.append('#define %s_%s %s' % (cls, nm, nm))
    # constants defined only in the source (not declared const in the class with a recognised form)
    for nm, (t, arr, init) in src_defs.items():
        if nm not in ci.consts:
            e = _const_expr(init, tr, cls, names, prefix)
            t = t.replace('real', real)
            if 'char' in t and '*' in t:
                out.append('static const char * const %s%s%s = %s;' % (prefix, nm, arr, e))
            else:
                out.append('static const %s %s%s%s = %s;' % (t, prefix, nm, arr, e))
            if own:
                out.append('#define %s_%s %s' % (cls, nm, nm))
    return '\n'.join(out)


def member_class_types(proj, cls, real='double'):
    ci = proj.classinfo(cls, real)
    return sorted(set(typ for nm, (typ, arr, mut) in ci.members.items() if re.match(r'^[A-Z]\w*$', typ)))


def emit_struct(proj, cls, real='double', opaque_types=(), own_cls=None):
    """R11: struct for `this`, generated from the member declarations of the class header.
    For a class other than the job's own, constants in array dimensions carry the class prefix (as emitted by R12)."""
    ci = proj.classinfo(cls, real)
    out = ['struct %s {' % cls]
    for nm, (typ, arr, mut) in ci.members.items():
        try:
            ct, kind = X.map_type(typ, real)
        except ExtractError:
            out.append('  /* member %s of unsupported type %s omitted */' % (nm, typ))
            continue
        a = arr
        if a:
            a = re.sub(r'\b([A-Za-z_]\w*)::([A-Za-z_]\w*)', r'\1_\2', a)
            if own_cls is not None and cls != own_cls:
                a = re.sub(r'(?<![\w.])([A-Za-z_]\w*)\b', lambda m: (cls + '_' + m.group(1)) if m.group(1) in ci.consts else m.group(1), a)
        out.append('  %s %s%s;%s' % (ct, nm, a, ' /* mutable */' if mut else ''))
    out.append('};')
    return '\n'.join(out)


# ----------------------------------------------------------------------------- function info
def method_from_header(proj, cls, name, real='double', select=None, arity=None):
    ci = proj.classinfo(cls, real)
    ms = [m for m in ci.methods.get(name, []) if m.params is not None and not m.deleted]
    if select:
        ms = [m for m in ms if re.search(select, re.sub(r'\s+', ' ', m.params_text))]
    if arity is not None:
        ms = [m for m in ms if len(m.params) == arity]
    if len(ms) != 1:
        raise ExtractError('%s::%s: %d header declarations match (select=%r)' % (cls, name, len(ms), select))
    return ms[0]


def funcinfo(proj, qualname, cname=None, real='double', select=None, may_throw=None, arity=None):
    cls, name = qualname.split('::')
    mi = method_from_header(proj, cls, name, real, select, arity)
    ret = mi.ret_text
    ret_ct = 'void' if ret in ('void', '') else X.map_type(ret, real)[0]   # '' : a constructor
    fi = X.FuncInfo(cname or qualname.replace('::', '_'), mi.params, ret_ct,
                    is_method=not mi.is_static, is_const=mi.is_const, cls=cls)
    fi.qualname = qualname
    fi.inline_body = mi.inline_body
    fi.init_list = getattr(mi, 'init_list', '')
    fi.template_T = getattr(mi, 'template_T', False) or cls in CLASS_TEMPLATE_T
    if mi.inline_body is None:
        # contracts name parameters as the DEFINITION does (the header may differ, e.g. UTMUPS::CheckCoords)
        try:
            srcrel = source_of(cls)
            if os.path.exists(os.path.join(proj.repo, srcrel)):
                clean = proj.clean(srcrel)
                fd = None
                try:
                    fd = X.find_function_def(clean, qualname, select)
                except ExtractError:
                    if select is None and arity is not None:
                        # pick by arity
                        pass
                if fd is not None:
                    dps = X.parse_params(fd.params_text, real)
                    if len(dps) == len(fi.params):
                        for hp, dp in zip(fi.params, dps):
                            hp.name = dp.name
        except Exception:
            pass
    if may_throw is not None:
        fi.may_throw = may_throw
    return fi


def ctor_init_to_statements(proj, cls, real, init_list, body_txt, report):
    """R11: the constructor's member-initialiser list becomes assignments, executed in the order the members are DECLARED
    in the class (the C++ rule), placed on the line of the opening brace"""
    ci0 = proj.classinfo(cls, real)
    inits = {}
    for item in X.split_top(init_list):
        im = re.match(r'\s*(\w+)\s*\((.*)\)\s*$', item, re.S)
        if not im:
            raise ExtractError('constructor initialiser %r not of the form member(expr)' % item.strip())
        inits[im.group(1)] = ' '.join(im.group(2).split())
    unknown = [k for k in inits if k not in ci0.members]
    if unknown:
        raise ExtractError('constructor initialises %s which are not data members (base class / delegating constructor?)' % unknown)
    stmts = ' '.join('%s = %s;' % (k, inits[k]) for k in ci0.members if k in inits)
    report.hit('R11.ctor_init_list', len(inits))
    return '{ ' + stmts + body_txt[1:]


class Extracted:
    pass


def extract_function(proj, fi, functable, real='double', srcrel=None, select=None, report=None,
                     contract=None, extra_members_cls=None, static_inline=False, exclude_clauses=(), own_cls=None, rewrites=None):
    """Returns Extracted with .text (C definition incl. contract), .meta (file, lines, sha)"""
    cls = fi.cls
    report = report or X.Report()
    if fi.inline_body is not None and srcrel is None:
        srcrel = header_of(cls)
        clean = proj.clean(srcrel)
        body_txt = fi.inline_body
        template_T_def = False
        inline_init = getattr(fi, 'init_list', '')
        # locate it for line numbers
        cb, off = X.class_body(clean, cls)
        # find the method text within the class body
        idx = clean.find(body_txt)
        line_body = clean.count('\n', 0, idx) + 1 if idx >= 0 else 1
        line_first, line_last = line_body, line_body + body_txt.count('\n')
        ret_text = None
        if inline_init.strip():
            body_txt = ctor_init_to_statements(proj, cls, real, inline_init, body_txt, report)
    else:
        srcrel = srcrel or source_of(cls)
        clean = proj.clean(srcrel)
        fd = X.find_function_def(clean, fi.qualname, select)
        body_txt = fd.body
        template_T_def = getattr(fd, 'template_T', False)
        if fd.init_list.strip():
            body_txt = ctor_init_to_statements(proj, cls, real, fd.init_list, body_txt, report)
        line_body, line_first, line_last = fd.line_body, fd.line_first, fd.line_last
        # parameter NAMES in the definition may differ from the header: use the definition's
        dparams = X.parse_params(fd.params_text, real)
        if len(dparams) != len(fi.params):
            raise ExtractError('%s: header/definition arity mismatch' % fi.qualname)
        for hp, dp in zip(fi.params, dparams):
            dp.default = hp.default
        fi.params = dparams
    classinfo = {}
    for q in list(functable) + [fi.qualname]:
        c = q.split('::')[0]
        try:
            classinfo[c] = proj.classinfo(c, real)
        except Exception:
            pass
    tr = X.Translator(cls, real, functable, classinfo, report, template_T=(getattr(fi, 'template_T', False) or template_T_def))
    tr.site_prefix = fi.cname
    ret = fi.ret_ctype
    b = body_txt
    for pat, rep in (rewrites or ()):
        b, nrw = re.subn(pat, rep, b)
        report.hit('R16.job_specific_rewrite(%s)' % pat, nrw)
        if nrw == 0:
            raise ExtractError('job-specific rewrite %r did not apply (the source changed?)' % pat)
    b = tr.rule_try_catch(b)
    b = tr.rule_remove(b)
    b = tr.rule_message_strings(b)
    b = tr.rule_istringstream(b)
    b = tr.rule_throw(b, ret)
    b = tr.rule_numeric_limits(b)
    str_names = {}
    for p in fi.params:
        if p.kind == 'str_in':
            str_names[p.name] = 'in'
        elif p.kind == 'str_out':
            str_names[p.name] = 'out'
    b = tr.rule_strings(b, str_names)
    b = tr.rule_copy(b)
    b = tr.rule_casts(b)
    b = tr.rule_names(b)
    b = tr.rule_statics(b)
    if fi.is_method:
        ci = proj.classinfo(extra_members_cls or cls, real)
        # R19c: a method called on a data member of class type:  _m.f(args)  ->  T::f(VERIF_OBJ(_m), args)
        for nm, (typ, arr, mut) in ci.members.items():
            if re.match(r'^[A-Z]\w*$', typ):
                b, n = re.subn(r'(?<![\w.>])' + nm + r'\s*\.\s*(\w+)\s*\(\s*\)', typ + r'_\1(VERIF_OBJ(' + nm + '))', b)
                b, n2 = re.subn(r'(?<![\w.>])' + nm + r'\s*\.\s*(\w+)\s*\(', typ + r'_\1(VERIF_OBJ(' + nm + '), ', b)
                report.hit('R19c.member_object_method_call', n + n2)
        b = tr.rule_members(b, set(ci.members))
    # R5b: a parameter of class type (const Class& g  ->  const struct Class *g):  g.f(args) -> Class::f(VERIF_OBJ(*g), args),  g.m -> g->m
    for p in fi.params:
        if p.kind in ('obj_in', 'obj_out') and 'struct ' in p.ctype:
            typ = p.ctype.replace('const', '').replace('*', '').replace('struct', '').strip()
            nm = p.name
            b, n = re.subn(r'(?<![\w.>])' + nm + r'\s*\.\s*(\w+)\s*\(\s*\)', typ + r'_\1(VERIF_OBJ(*' + nm + '))', b)
            b, n2 = re.subn(r'(?<![\w.>])' + nm + r'\s*\.\s*(\w+)\s*\(', typ + r'_\1(VERIF_OBJ(*' + nm + '), ', b)
            b, n3 = re.subn(r'(?<![\w.>])' + nm + r'\s*\.\s*(?=\w)', nm + '->', b)
            report.hit('R5b.object_param_use', n + n2 + n3)
    b = tr.rule_refs(b, [p.name for p in fi.params if p.kind == 'ref'])
    b = tr.rule_calls(b, ret, unqualified_cls=cls)
    b = tr.rule_propagate(b, ret)
    b = tr.rule_real(b)
    if own_cls is not None and cls != own_cls:
        # helper of another class inlined into this TU: its unqualified class constants are emitted with the class prefix
        cnames = set(proj.classinfo(cls, real).consts)
        b = re.sub(r'(?<![\w.>])([A-Za-z_]\w*)\b', lambda m: (cls + '_' + m.group(1)) if m.group(1) in cnames else m.group(1), b)
    ex = Extracted()
    ex.fi = fi
    ex.report = report
    ex.srcrel = srcrel
    ex.lines = (line_first, line_last)
    ex.sha = X.sha256(body_txt)
    proto = fi.proto()
    if static_inline:
        proto = 'static inline ' + proto
    parts = [proto]
    ex.loops_spliced = 0
    ex.loop_lines = []
    if contract is not None:
        parts.append(contract.emit_clauses(exclude_clauses))
        b, ex.loops_spliced = splice_loops(b, contract)
        ex.loop_lines = [line_body + o for o in getattr(contract, 'loop_line_offsets', [])]
        b = splice_captures(b, contract, report)
    # R9b: a MUTABLE function-local static is state shared by all callers (and all threads).  DFCC treats static locals as private to the function
    # and lets it write them freely, so they are hoisted to file scope (renamed <function>__static_<name>): a write to one is then an assignment
    # outside the function's frame, i.e. a failed `assigns` obligation (C14: a static / const function must not write shared state).
    hoisted = []
    spat = re.compile(r'(?m)^([ \t]*)static\s+(?!const\b|inline\b)((?:unsigned\s+|long\s+)*(?:int|double|float|_Bool|char|unsigned|long|size_t))\s+([^;{}]+);')
    for m in reversed(list(spat.finditer(b))):
        decl = m.group(3)
        names = [re.match(r'\s*\**\s*(\w+)', d).group(1) for d in X.split_top(decl)]
        b = b[:m.start()] + m.group(1) + '/* function-local static hoisted to file scope (R9b) */' + b[m.end():]
        line = '%s %s;' % (m.group(2), ' '.join(decl.split()))
        for nm in names:
            new = '%s__static_%s' % (fi.cname, nm)
            b = re.sub(r'(?<![\w.>])%s\b' % re.escape(nm), new, b)
            line = re.sub(r'(?<![\w.>])%s\b' % re.escape(nm), new, line)
        hoisted.insert(0, line)
        report.hit('R9b.mutable_static_local_hoisted', len(names))
    parts.append('#line %d "%s"' % (line_body, os.path.join(proj.repo, srcrel)))
    parts.append(b)
    # wrappers of the call sites of replaced callees (per-site vacuity canaries, see rule_calls)
    wr = []
    for k, cfi, rel_line in getattr(tr, 'call_sites', []):
        wname = '%s__at_%s_%d' % (cfi.cname, fi.cname, k)
        proto_w = cfi.proto().replace(' %s(' % cfi.cname, ' %s(' % wname, 1)
        args = (['self'] if cfi.is_method else []) + [p.name for p in cfi.params]
        call = '%s(%s);' % (cfi.cname, ', '.join(args))
        canary = '__CPROVER_assert(0, "canary: call of %s at %s:%d returns");' % (cfi.cname, srcrel, line_body + rel_line)
        if cfi.ret_ctype == 'void':
            wr.append('static inline %s { %s %s }' % (proto_w, call, canary))
        else:
            wr.append('static inline %s { %s r_ = %s %s return r_; }' % (proto_w, cfi.ret_ctype, call, canary))
    ex.text = '\n'.join(hoisted + wr + parts)
    ex.body_c = b
    return ex


def splice_captures(body, contract, report):
    """R21: ghost capture.  After the declaration statement of a named local, append `ghost = expr;`
    (ghost globals only; the executable text is otherwise unchanged)."""
    for gname, local, expr, ctype in contract.captures:
        m = re.search(r'(?<![\w.>])' + re.escape(local) + r'\s*=(?!=)', body)
        if not m:
            raise ExtractError('capture: local %s is not declared/assigned in the body' % local)
        depth = 0
        for ch in body[:m.start()]:
            if ch == '(':
                depth += 1
            elif ch == ')':
                depth -= 1
        if depth != 0:
            raise ExtractError('capture: first assignment of %s is inside parentheses' % local)
        semi = X.Translator._stmt_end(body, m.end())
        body = body[:semi + 1] + ' %s = %s;' % (gname, expr) + body[semi + 1:]
        report.hit('R21.ghost_capture')
    anchors = {}
    for anchor, gname, expr, ctype in contract.captures_before:
        anchors.setdefault(anchor, []).append('%s = %s;' % (gname, expr))
    for anchor, stmts in anchors.items():
        pat = re.compile(r'(?<=[;{}])(\s*)' + r'\s*'.join(re.escape(t) for t in anchor.split()))
        m = pat.search(body)
        if not m:
            raise ExtractError('capture-before: no statement starts with %r' % anchor)
        ins = m.start() + len(m.group(1))
        body = body[:ins] + '{ ' + ' '.join(stmts) + ' } ' + body[ins:]
        report.hit('R21b.ghost_capture_before', len(stmts))
    if contract.captures_end:
        end = body.rstrip().rfind('}')
        body = body[:end] + '{ ' + ' '.join('%s = %s;' % (g, e) for g, e, t in contract.captures_end) + ' } ' + body[end:]
        report.hit('R21c.ghost_capture_at_end', len(contract.captures_end))
    return body


def capture_decls(contract):
    return '\n'.join(['%s %s;' % (ctype, gname) for gname, local, expr, ctype in contract.captures] +
                     ['%s %s;' % (ctype, gname) for anchor, gname, expr, ctype in contract.captures_before] +
                     ['%s %s;' % (ctype, gname) for gname, expr, ctype in contract.captures_end])


def splice_loops(body, contract):
    """insert loop contracts after the header of the n-th loop (textual order of for/while keywords)"""
    if not contract.loops:
        return body, 0
    pat = re.compile(r'\b(for|while)\s*\(')
    pos = []
    for m in pat.finditer(body):
        # `while` that terminates a do-while is followed by ';' after the paren
        pc = X.match_close(body, m.end() - 1)
        after = body[pc + 1:pc + 20].lstrip()
        if m.group(1) == 'while' and after.startswith(';'):
            pos.append(('dowhile', pc))
        else:
            pos.append((m.group(1), pc))
    n_spliced = 0
    contract.loop_line_offsets = [body.count('\n', 0, pos[n - 1][1]) for n in sorted(contract.loops) if n <= len(pos)]
    for n in sorted(contract.loops, reverse=True):
        if n > len(pos):
            raise ExtractError('%s: loop contract for loop %d but the body has %d loops' % (contract.path, n, len(pos)))
        kind, pc = pos[n - 1]
        txt = []
        for c in contract.loops[n]:
            txt.append(' '.join(l.strip() for l in c[2] if l.strip()))
        ins = ' ' + ' '.join(txt) + ' '
        body = body[:pc + 1] + ins + body[pc + 1:]
        n_spliced += 1
    return body, n_spliced


def callee_decl(fi, contract, exclude=(), ghost=True):
    """prototype + contract clauses of a callee that is replaced by its contract"""
    return fi.proto() + '\n' + contract.emit_clauses(exclude, mode='replace-ghost' if ghost else 'replace-pure') + '\n;'


def raw_def_text(proj, qualname, select=None, srcrel=None):
    """text of a definition (source file or inline in the header), for dependency scanning"""
    cls, name = qualname.split('::')
    try:
        mi = method_from_header(proj, cls, name, 'double', select)
        if mi.inline_body is not None and srcrel is None:
            return mi.inline_body
    except ExtractError:
        pass
    try:
        clean = proj.clean(srcrel or source_of(cls))
        fd = X.find_function_def(clean, qualname, select)
        return fd.init_list + fd.body
    except Exception:
        return ''
