"""known.py -- /verif/known_findings.txt (committed, never written at run time).

  finding: property=<id>[,<id>..] job=<job name> clause=<regex on clause id or obligation text> when=<C condition over the harness inputs in_*> :: <what fails>
  fixed: property=<id> <commit> <what failed>

A `finding` splits its job in two: inputs satisfying `when` (only there may the named clause fail, and
that is printed as KNOWN-FINDING) and all other inputs (where every obligation must be discharged, so a
different violation of the same clause is still reported).  `fixed` entries suppress nothing.
"""
import re, os


def load(path):
    out = []
    if not os.path.exists(path):
        return out
    for no, line in enumerate(open(path), 1):
        s = line.strip()
        if not s or s.startswith('#'):
            continue
        if s.startswith('finding:'):
            body, _, what = s[len('finding:'):].partition('::')
            m = re.match(r'\s*property=(\S+)\s+job=(\S+)\s+clause=(\S+)\s+when=(.*)$', body.strip())
            if not m:
                raise SystemExit('known_findings.txt:%d: cannot parse' % no)
            when = m.group(4).strip()
            swap = None
            ms = re.match(r'^\*\s+swap=(\S+)/(\S+)$', when)
            if ms:
                # the finding concerns every input: the job is run once with clause <a> replaced by the weaker clause <b>
                # (everything else must be discharged) and once with <a> (only there may the named obligation fail)
                when, swap = '*', (ms.group(1), ms.group(2))
            out.append(dict(kind='finding', props=m.group(1).split(','), job=m.group(2), clause=m.group(3),
                            when=when, swap=swap, what=what.strip(), line=no))
        elif s.startswith('fixed:'):
            out.append(dict(kind='fixed', text=s, line=no))
    return out


def for_job(kf, jobname):
    return [k for k in kf if k['kind'] == 'finding' and k['job'] == jobname]


def match(kf, prop, result, failure):
    """a failure is a known finding iff it occurs in the sub-job restricted to that finding's `when`
    pattern and the failed clause matches"""
    sub = result['job']
    if '#kf' not in sub:
        return None
    base, _, lab = sub.partition('#kf')
    lab = re.match(r'\d+', lab).group(0)
    for k in for_job(kf, base):
        if str(k['line']) != lab:
            continue
        name = (failure.get('clause') or '') + ' ' + failure['desc']
        if re.search(k['clause'], name):
            return k
    return None
