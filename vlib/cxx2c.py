"""cxx2c.py -- mechanical extraction of GeographicLib function bodies into C (DESIGN.md section 3.1).

Nothing here knows about any particular function: all rewriting is by the generic rules R1..R20.
Every rule application is counted (Report) and written to the evidence; constructs no rule covers
are left as they are, so that goto-cc rejects them (infrastructure error, exit 2), or raise
ExtractError here.
"""
import re, hashlib, os
from collections import Counter, OrderedDict


class ExtractError(Exception):
    pass


# ----------------------------------------------------------------------------- lexical helpers
def strip_comments(src):
    """R1: replace comments by blanks (newlines kept); string and char literals are kept."""
    out = []
    i, n = 0, len(src)
    while i < n:
        c = src[i]
        if c == '/' and i + 1 < n and src[i + 1] == '/':
            j = src.find('\n', i)
            if j < 0:
                j = n
            out.append(' ' * (j - i))
            i = j
        elif c == '/' and i + 1 < n and src[i + 1] == '*':
            j = src.find('*/', i + 2)
            j = n if j < 0 else j + 2
            out.append(''.join(ch if ch == '\n' else ' ' for ch in src[i:j]))
            i = j
        elif c == '"' or c == "'":
            j = i + 1
            while j < n and src[j] != c:
                j += 2 if src[j] == '\\' else 1
            out.append(src[i:j + 1])
            i = j + 1
        else:
            out.append(c)
            i += 1
    return ''.join(out)


PP_DEFINES = {
    'GEOGRAPHICLIB_PRECISION': 2, 'GEOGRAPHICLIB_HAVE_LONG_DOUBLE': 1, '__cplusplus': 201703,
    'GEOGRAPHICLIB_WORDS_BIGENDIAN': 0, 'GEOGRAPHICLIB_GEODESIC_ORDER': 6,
    'GEOGRAPHICLIB_GEODESICEXACT_ORDER': 30, 'GEOGRAPHICLIB_TRANSVERSEMERCATOR_ORDER': 6,
    'GEOGRAPHICLIB_AUXLATITUDE_ORDER': 6, 'GEOGRAPHICLIB_RHUMBAREA_ORDER': 6,
    'GEOGRAPHICLIB_GEOID_PGM_PIXEL_WIDTH': 2, 'GEOGRAPHICLIB_DATA': 0,
}


def _pp_eval(expr, defines):
    e = expr
    e = re.sub(r'defined\s*\(\s*(\w+)\s*\)', lambda m: '1' if m.group(1) in defines else '0', e)
    e = re.sub(r'defined\s+(\w+)', lambda m: '1' if m.group(1) in defines else '0', e)
    e = re.sub(r'\b(\d+)[uUlL]+\b', r'\1', e)

    def ident(m):
        w = m.group(0)
        if w in ('and', 'or', 'not'):
            return w
        return str(defines.get(w, 0))
    e = e.replace('&&', ' and ').replace('||', ' or ')
    e = re.sub(r'(?<!/)/(?!/)', '//', e)   # integer division
    e = re.sub(r'!(?!=)', ' not ', e)
    e = re.sub(r'\b[A-Za-z_]\w*\b', ident, e)
    try:
        return bool(eval(e, {'__builtins__': {}}, {}))
    except Exception as ex:
        raise ExtractError('cannot evaluate #if %r: %s' % (expr, ex))


def eval_pp(src, defines=None):
    """Evaluate #if/#ifdef/#elif/#else/#endif for the build configuration (PRECISION == 2, C++17);
    every directive line and every inactive line becomes blank, so line numbers are preserved."""
    defines = dict(PP_DEFINES if defines is None else defines)
    out = []
    stack = []  # entries: [parent_active, taken_already, currently_active]
    lines = src.split('\n')
    i = 0
    while i < len(lines):
        line = lines[i]
        s = line.strip()
        active = all(f[2] for f in stack)
        if s.startswith('#'):
            # join continuation lines
            full = s
            extra = 0
            while full.endswith('\\') and i + 1 + extra < len(lines):
                extra += 1
                full = full[:-1] + ' ' + lines[i + extra].strip()
            d = re.match(r'#\s*(\w+)\s*(.*)', full)
            name, rest = (d.group(1), d.group(2)) if d else ('', '')
            if name == 'if':
                v = _pp_eval(rest, defines) if active else False
                stack.append([active, v, v])
            elif name == 'ifdef':
                v = (rest.split()[0] in defines) if active else False
                stack.append([active, v, v])
            elif name == 'ifndef':
                v = (rest.split()[0] not in defines) if active else False
                stack.append([active, v, v])
            elif name == 'elif':
                f = stack[-1]
                if f[0] and not f[1]:
                    v = _pp_eval(rest, defines)
                    f[1] = v
                    f[2] = v
                else:
                    f[2] = False
            elif name == 'else':
                f = stack[-1]
                f[2] = f[0] and not f[1]
                f[1] = True
            elif name == 'endif':
                stack.pop()
            elif name == 'define' and active:
                m = re.match(r'(\w+)\s+(-?\d+)\s*$', rest)
                if m:
                    defines[m.group(1)] = int(m.group(2))
                elif re.match(r'(\w+)\s*$', rest):
                    defines[rest.strip()] = 1
            for _ in range(extra + 1):
                out.append('')
            i += extra + 1
            continue
        out.append(line if active else '')
        i += 1
    return '\n'.join(out)


def match_close(src, i, op='(', cl=')'):
    """src[i] == op; return index of the matching close, skipping string/char literals."""
    assert src[i] == op, (src[i:i + 20], op)
    depth = 0
    n = len(src)
    j = i
    while j < n:
        c = src[j]
        if c == '"' or c == "'":
            k = j + 1
            while k < n and src[k] != c:
                k += 2 if src[k] == '\\' else 1
            j = k + 1
            continue
        if c == op:
            depth += 1
        elif c == cl:
            depth -= 1
            if depth == 0:
                return j
        j += 1
    raise ExtractError('unbalanced %s at %d' % (op, i))


def split_top(text, sep=','):
    """split at top-level separators (outside () [] {} <> is NOT tracked for <>, templates in args are
    not expected) -- string literals skipped."""
    parts = []
    depth = 0
    cur = []
    i, n = 0, len(text)
    while i < n:
        c = text[i]
        if c == '"' or c == "'":
            k = i + 1
            while k < n and text[k] != c:
                k += 2 if text[k] == '\\' else 1
            cur.append(text[i:k + 1])
            i = k + 1
            continue
        if c in '([{':
            depth += 1
        elif c in ')]}':
            depth -= 1
        if c == sep and depth == 0:
            parts.append(''.join(cur))
            cur = []
        else:
            cur.append(c)
        i += 1
    tail = ''.join(cur)
    if tail.strip() or parts:
        parts.append(tail)
    return parts


# ----------------------------------------------------------------------------- types
SCALARS = {
    'int': 'int', 'unsigned': 'unsigned', 'unsigned int': 'unsigned', 'bool': '_Bool', 'char': 'char',
    'long long': 'long long', 'unsigned long long': 'unsigned long long', 'long': 'long',
    'double': 'double', 'float': 'float', 'void': 'void', 'size_t': 'size_t', 'unsigned char': 'unsigned char',
    'captype': 'unsigned', 'short': 'short', 'unsigned short': 'unsigned short',
    'string::size_type': 'size_t', 'flag': 'int', 'size_type': 'size_t', 'long double': 'long double',
}


class Param:
    def __init__(self, cpptype, name, default, ctype, kind, array=''):
        self.cpptype, self.name, self.default = cpptype, name, default
        self.ctype, self.kind, self.array = ctype, kind, array
        # kind: val | ref (T& -> T*) | str_in (const string& -> const vstr*) | str_out (string& -> vstr*)
        #       | ptr (pointer passed through) | array | obj_in (const Class& -> const struct Class*) | obj_out

    def cdecl(self):
        if self.kind == 'array':
            return '%s %s%s' % (self.ctype, self.name, self.array)
        return '%s %s' % (self.ctype, self.name)


def norm_type(t):
    t = re.sub(r'\bstd::', '', t)
    t = re.sub(r'\bMath::real\b', 'real', t)
    t = re.sub(r'\s+', ' ', t).strip()
    return t


def map_type(cpptype, real='double', classes=()):
    """returns (ctype, kind)"""
    t = norm_type(cpptype)
    is_ref = t.endswith('&')
    if is_ref:
        t = t[:-1].strip()
    is_const = False
    if t.startswith('const '):
        is_const = True
        t = t[6:].strip()
    if t.endswith(' const'):
        is_const = True
        t = t[:-6].strip()
    ptr = ''
    while t.endswith('*'):
        ptr += '*'
        t = t[:-1].strip()
        if t.endswith(' const'):
            t = t[:-6].strip()
        if t.startswith('const '):
            is_const = True
            t = t[6:].strip()
    if t in ('real', 'T'):
        base = real
    elif t in SCALARS:
        base = SCALARS[t]
    elif t == 'string':
        base = 'vstr'
    elif t in ('vector<real>', 'vector<double>', 'vector<T>'):
        base = 'vvec_d'
    elif t in ('vector<int>',):
        base = 'vvec_i'
    elif t in ('vector<real>::const_iterator', 'vector<double>::const_iterator'):
        return ('const ' + real + ' *', 'ptr')   # R17: an iterator into a vector<real> is a pointer to its elements
    elif re.match(r'^[A-Z]\w*(::\w+)?$', t):
        base = 'struct ' + t.replace('::', '_')
    elif t in ('mask', 'captype', 'component', 'convention', 'zonespec', 'aux'):
        base = 'unsigned'
    else:
        raise ExtractError('unsupported type %r' % cpptype)
    if ptr:
        return (('const ' if is_const else '') + base + ' ' + ptr, 'ptr')
    if base in ('vstr', 'vvec_d', 'vvec_i') or base.startswith('struct '):
        if is_ref and not is_const:
            return (base + ' *', 'str_out' if base == 'vstr' else 'obj_out')
        if is_ref and is_const:
            return ('const ' + base + ' *', 'str_in' if base == 'vstr' else 'obj_in')
        return (base, 'obj')   # by value: only legal for data members (struct generation), refused for parameters
    if is_ref and not is_const:
        return (base + ' *', 'ref')
    return (base, 'val')


def parse_params(text, real='double'):
    params = []
    text = text.strip()
    if text in ('', 'void'):
        return params
    for n, p in enumerate(split_top(text)):
        p = p.strip()
        default = None
        eq = None
        depth = 0
        for i, c in enumerate(p):
            if c in '([{':
                depth += 1
            elif c in ')]}':
                depth -= 1
            elif c == '=' and depth == 0:
                eq = i
                break
        if eq is not None:
            default = p[eq + 1:].strip()
            p = p[:eq].strip()
        array = ''
        m = re.search(r'(\[[^\]]*\])\s*$', p)
        if m:
            array = m.group(1)
            p = p[:m.start()].strip()
        m = re.match(r'^(.*?)([A-Za-z_]\w*)$', p, re.S)
        if not m:
            raise ExtractError('cannot parse parameter %r' % p)
        typ, name = m.group(1).strip(), m.group(2)
        if typ == '' or (typ in ('const', 'unsigned', 'const unsigned') and name in ('real', 'int', 'unsigned', 'double', 'bool', 'char', 'T', 'long', 'float')):
            # unnamed parameter ("real", "unsigned")
            typ = (typ + ' ' + name).strip()
            name = 'unnamed%d' % n
        if array:
            ctype, kind = map_type(typ, real)
            params.append(Param(typ + array, name, default, ctype, 'array', array))
        else:
            ctype, kind = map_type(typ, real)
            if kind == 'obj':
                raise ExtractError('by-value object parameter %r not supported' % typ)
            params.append(Param(typ, name, default, ctype, kind))
    return params


# ----------------------------------------------------------------------------- locating definitions
class FuncDef:
    pass


def find_function_def(clean, qualname, select=None):
    """Locate `Ret Class::name(params) [const] [: init-list] { body }` in comment-stripped, pp-evaluated
    text.  `select` is an optional regex that must match the parameter text (to pick an overload)."""
    if '::' in qualname:
        qc, qn = qualname.split('::', 1)
        # the class may be a template:  PolygonAreaT<GeodType>::transit
        pat = re.compile(r'\b' + re.escape(qc) + r'\s*(?:<\s*\w+\s*>)?\s*::\s*' + re.escape(qn) + r'\s*(?:<\s*\w+\s*>)?\s*\(')
    else:
        pat = re.compile(r'\b' + re.escape(qualname) + r'\s*(?:<\s*\w+\s*>)?\s*\(')
    cands = []
    for m in pat.finditer(clean):
        po = m.end() - 1
        try:
            pc = match_close(clean, po)
        except ExtractError:
            continue
        j = pc + 1
        tail = re.match(r'\s*(const)?\s*(noexcept)?\s*', clean[j:])
        is_const = bool(tail.group(1))
        j += tail.end()
        init = ''
        if j < len(clean) and clean[j] == ':' and clean[j:j + 2] != '::':
            k = j + 1
            # init list: runs to the '{' at depth 0 that starts the body
            depth = 0
            while k < len(clean):
                c = clean[k]
                if c in '(':
                    depth += 1
                elif c in ')':
                    depth -= 1
                elif c == '{' and depth == 0:
                    # brace-init `_x{...}` is not used in this code base
                    break
                k += 1
            init = clean[j + 1:k]
            j = k
        if j >= len(clean) or clean[j] != '{':
            continue  # a call or declaration, not a definition
        # the text before the name back to the previous ';' or '}' is the return type
        s = m.start()
        b = max(clean.rfind(';', 0, s), clean.rfind('}', 0, s), clean.rfind('{', 0, s))
        head = clean[b + 1:s]
        if re.search(r'[=(,]', re.sub(r'template\s*<[^>]*>', '', head)):
            continue  # inside an expression
        params_text = clean[po + 1:pc]
        if select and not re.search(select, re.sub(r'\s+', ' ', params_text)):
            continue
        be = match_close(clean, j, '{', '}')
        fd = FuncDef()
        fd.qualname = qualname
        fd.head_start = b + 1
        fd.ret_text = re.sub(r'template\s*<[^>]*>', '', head).strip()
        fd.template_T = bool(re.search(r'template\s*<[^>]*\b(?:typename|class)\s+T\b', head))
        fd.params_text = params_text
        fd.is_const = is_const
        fd.init_list = init
        fd.body_start, fd.body_end = j, be
        fd.body = clean[j:be + 1]
        fd.line_first = clean.count('\n', 0, m.start()) + 1
        fd.line_body = clean.count('\n', 0, j) + 1
        fd.line_last = clean.count('\n', 0, be) + 1
        cands.append(fd)
    if not cands:
        raise ExtractError('definition of %s not found (select=%r)' % (qualname, select))
    if len(cands) > 1:
        raise ExtractError('definition of %s is ambiguous (%d candidates); add a select regex' % (qualname, len(cands)))
    return cands[0]


# ----------------------------------------------------------------------------- class headers
class ClassInfo:
    def __init__(self, name):
        self.name = name
        self.methods = {}      # name -> list of MethodInfo
        self.consts = OrderedDict()   # name -> (ctype, expr or None)   static const(expr) scalars / enums
        self.members = OrderedDict()  # name -> (cpptype, array)
        self.typedefs = {}
        self.enum_names = []


class MethodInfo:
    pass


def class_body(clean, cls):
    m = re.search(r'\b(?:class|struct)\s+(?:GEOGRAPHICLIB_EXPORT\s+)?' + re.escape(cls) + r'\b[^;{]*\{', clean)
    if not m:
        raise ExtractError('class %s not found' % cls)
    o = m.end() - 1
    c = match_close(clean, o, '{', '}')
    return clean[o + 1:c], o + 1


def class_items(body):
    """split a class body into top-level items: (text, has_block)"""
    items = []
    i, n = 0, len(body)
    start = 0
    depth = 0
    while i < n:
        c = body[i]
        if c == '"' or c == "'":
            k = i + 1
            while k < n and body[k] != c:
                k += 2 if body[k] == '\\' else 1
            i = k + 1
            continue
        if c == '(':
            i = match_close(body, i) + 1
            continue
        if c == '{':
            e = match_close(body, i, '{', '}')
            # block: function body, enum, nested class; may be followed by ';' or declarators
            j = e + 1
            mm = re.match(r'\s*;', body[j:])
            if mm:
                j += mm.end()
            items.append(body[start:j])
            start = j
            i = j
            continue
        if c == ';':
            items.append(body[start:i + 1])
            start = i + 1
        elif c == ':' and body[i:i + 2] != '::' and (i == 0 or body[i - 1] != ':'):
            lab = body[start:i].strip()
            if lab in ('public', 'private', 'protected'):
                start = i + 1
        i += 1
    return [it for it in items if it.strip()]


def parse_class(header_clean, cls, real='double'):
    ci = ClassInfo(cls)
    body, _ = class_body(header_clean, cls)
    for it in class_items(body):
        t = it.strip()
        item_template_T = bool(re.match(r'^template\s*<[^>]*\b(?:typename|class)\s+T\b', t))
        t = re.sub(r'^template\s*<[^>]*>\s*', '', t)
        if t.startswith('friend') or t.startswith('using '):
            continue
        if t.startswith('typedef'):
            m = re.match(r'typedef\s+(.*?)\s+(\w+)\s*;', t, re.S)
            if m:
                ci.typedefs[m.group(2)] = m.group(1)
            continue
        if re.match(r'^enum\b', t):
            m = re.match(r'enum\s*(\w*)\s*\{(.*)\}', t, re.S)
            if m:
                if m.group(1):
                    ci.enum_names.append(m.group(1))
                prev = None
                for e in split_top(m.group(2)):
                    e = e.strip()
                    if not e:
                        continue
                    if '=' in e:
                        k, v = e.split('=', 1)
                        k, v = k.strip(), v.strip()
                    else:
                        k = e
                        v = '0' if prev is None else '(%s) + 1' % prev
                    ci.consts[k] = ('enum', v)
                    prev = k
            continue
        if re.match(r'^(class|struct)\b', t) and '{' in t:
            continue
        # function?
        par = None
        depth = 0
        for i, c in enumerate(t):
            if c == '(':
                par = i
                break
            if c in '={':
                break
        if par is None:
            # an assignment-like operator (`operator*=`, `operator==`, ...): the '=' belongs to the name, not to an initialiser
            mo = re.match(r'^[^={(]*\boperator\s*(?:[-+*/%^&|<>!=]?=)\s*\(', t)
            if mo:
                par = mo.end() - 1
        if par is not None:
            pre = t[:par].rstrip()
            m = re.search(r'(operator\s*\S+|~?\w+)\s*$', pre)
            if not m:
                continue
            name = re.sub(r'\s+', '', m.group(1))
            rettext = pre[:m.start()].strip()
            pc = match_close(t, par)
            suffix = t[pc + 1:]
            mi = MethodInfo()
            mi.cls, mi.name = cls, name
            mi.is_static = bool(re.search(r'\bstatic\b', rettext))
            mi.ret_text = re.sub(r'\b(static|virtual|inline|explicit|constexpr|GEOGRAPHICLIB_EXPORT)\b', '', rettext).strip()
            mi.is_const = bool(re.match(r'\s*const\b', suffix))
            mi.params_text = t[par + 1:pc]
            mi.inline_body = None
            bi = suffix.find('{')
            mi.init_list = ''
            if bi >= 0:
                mi.inline_body = suffix[bi:suffix.rfind('}') + 1]
                # an inline constructor's member-initialiser list sits between ')' and the body (brace-init is not used in this code base)
                il = suffix[:bi].strip()
                if il.startswith(':'):
                    mi.init_list = il[1:].strip()
            mi.deleted = '= delete' in suffix or '=delete' in suffix
            mi.template_T = item_template_T
            try:
                mi.params = parse_params(mi.params_text, real)
            except ExtractError:
                mi.params = None
            ci.methods.setdefault(name, []).append(mi)
            continue
        # data member or constant
        t1 = t.rstrip(';').strip()
        m = re.match(r'^(static\s+)?(inline\s+)?(const\s+|constexpr\s+)*(.*)$', t1, re.S)
        is_static = bool(re.match(r'^static\b', t1))
        is_constant = bool(re.search(r'\b(const|constexpr)\b', t1.split('=')[0])) and is_static
        if is_constant:
            mm = re.match(r'^static\s+(?:inline\s+)?(?:const|constexpr)\s+(?:const\s+)?([\w: ]+?)\s+(\w+)\s*(?:=\s*(.*))?$', t1, re.S)
            if mm:
                typ, nm, val = norm_type(mm.group(1)), mm.group(2), mm.group(3)
                ci.consts[nm] = (typ, val.strip() if val else None)
            else:
                mm = re.match(r'^static\s+const\s+char\s*\*\s*const\s+(\w+)\s*(\[\s*\w*\s*\])?$', t1)
                if mm:
                    ci.consts[mm.group(1)] = ('cstr[]' if mm.group(2) else 'cstr', None)
                else:
                    mm = re.match(r'^static\s+const\s+([\w: ]+?)\s+(\w+)\s*\[\s*\w*\s*\]$', t1)
                    if mm:
                        ci.consts[mm.group(2)] = (norm_type(mm.group(1)) + '[]', None)
            continue
        if is_static:
            continue
        mm = re.match(r'^(mutable\s+)?([\w:<> ]+?)\s+((?:\*?\s*\w+\s*(?:\[[^\]]*\])?\s*,\s*)*\*?\s*\w+\s*(?:\[[^\]]*\])?)$', t1, re.S)
        if mm:
            typ = norm_type(mm.group(2))
            for d in split_top(mm.group(3)):
                d = d.strip()
                am = re.match(r'^(\w+)\s*(\[[^\]]*\])?$', d)
                if am:
                    ci.members[am.group(1)] = (typ, am.group(2) or '', bool(mm.group(1)))
    return ci


# ----------------------------------------------------------------------------- function table
class FuncInfo:
    """What call-site rewriting needs to know about a callee."""
    def __init__(self, cname, params, ret_ctype, is_method=False, is_const=False, may_throw=False, cls=None):
        self.cname, self.params, self.ret_ctype = cname, params, ret_ctype
        self.is_method, self.is_const, self.may_throw, self.cls = is_method, is_const, may_throw, cls

    def required(self):
        return sum(1 for p in self.params if p.default is None)

    def proto(self, self_const=None):
        ps = []
        if self.is_method:
            # `this` is never const-qualified in the C text: a C++ const method may write mutable members, and what a const
            # method really writes is decided by its __CPROVER_assigns frame, not by the type system
            ps.append('struct %s *self' % self.cls)
        ps += [p.cdecl() for p in self.params]
        return '%s %s(%s)' % (self.ret_ctype, self.cname, ', '.join(ps) if ps else 'void')


class Report:
    def __init__(self):
        self.rules = Counter()
        self.dropped = []   # text fragments dropped (message expressions etc.)

    def hit(self, rule, n=1):
        if n:
            self.rules[rule] += n


NUMERIC_LIMITS = {
    ('real', 'epsilon'): 'DBL_EPSILON', ('double', 'epsilon'): 'DBL_EPSILON', ('float', 'epsilon'): 'FLT_EPSILON',
    ('real', 'max'): 'DBL_MAX', ('double', 'max'): 'DBL_MAX', ('float', 'max'): 'FLT_MAX',
    ('real', 'min'): 'DBL_MIN', ('double', 'min'): 'DBL_MIN', ('float', 'min'): 'FLT_MIN',
    ('real', 'digits'): 'DBL_MANT_DIG', ('double', 'digits'): 'DBL_MANT_DIG', ('float', 'digits'): 'FLT_MANT_DIG',
    ('real', 'digits10'): 'DBL_DIG', ('double', 'digits10'): 'DBL_DIG',
    ('real', 'quiet_NaN'): 'VERIF_NAN', ('double', 'quiet_NaN'): 'VERIF_NAN',
    ('real', 'infinity'): 'VERIF_INF', ('double', 'infinity'): 'VERIF_INF',
    ('int', 'max'): 'INT_MAX', ('int', 'min'): 'INT_MIN', ('int', 'digits'): '31',
    ('long long', 'digits'): '63', ('unsigned', 'digits'): '32',
    ('real', 'radix'): 'FLT_RADIX', ('double', 'radix'): 'FLT_RADIX', ('float', 'radix'): 'FLT_RADIX',
    ('real', 'has_quiet_NaN'): '1', ('real', 'has_infinity'): '1',
    ('double', 'has_quiet_NaN'): '1', ('double', 'has_infinity'): '1',
    ('float', 'has_quiet_NaN'): '1', ('float', 'has_infinity'): '1',
    ('float', 'quiet_NaN'): '((float)VERIF_NAN)', ('float', 'infinity'): '((float)VERIF_INF)',
}

CAST_TYPES = ['real', 'T', 'int', 'unsigned', 'char', 'bool', 'double', 'float', 'size_t']


class Translator:
    """Translates one function definition.  ctx fields:
       cls        -- class of the function (None for free functions)
       real       -- C type replacing `real` / template parameter T
       functable  -- dict: C++ qualified name -> list[FuncInfo]   (overloads resolved by arity)
       classinfo  -- dict: class name -> ClassInfo (for constants / members)
       is_method  -- the function has a `this`
    """

    def __init__(self, cls, real, functable, classinfo, report=None, template_T=True):
        self.cls, self.real, self.functable, self.classinfo = cls, real, functable, classinfo
        self.report = report or Report()
        self.template_T = template_T   # the identifier T is the template type parameter (else it is an ordinary name)

    # ---- R7 throws
    def rule_throw(self, body, ret_ctype):
        out = []
        i = 0
        pat = re.compile(r'\bthrow\b')
        while True:
            m = pat.search(body, i)
            if not m:
                out.append(body[i:])
                break
            out.append(body[i:m.start()])
            j = m.end()
            mm = re.match(r'\s*(?:GeographicLib::)?GeographicErr\s*\(', body[j:])
            semi = self._stmt_end(body, j)
            expr = body[j:semi]
            nl = '\n' * expr.count('\n')
            if mm:
                self.report.hit('R7.throw_GeographicErr')
                self.report.dropped.append('message: ' + re.sub(r'\s+', ' ', expr.strip())[:200])
                # R7b: arithmetic conversions inside the dropped message are still evaluated (and discarded),
                # so that undefined behaviour while building the message is not hidden by the rule
                keep = self.kept_checks(expr)
                out.append('{ %s VERIF_THROW(%s); }%s' % (' '.join(keep), self._ret_default(ret_ctype), nl))
            elif expr.strip() == '':
                self.report.hit('R7.rethrow')
                out.append('{ VERIF_THROW_OTHER(%s); }%s' % (self._ret_default(ret_ctype), nl))
            else:
                self.report.hit('R7.throw_other_type')
                self.report.dropped.append('throw of non-GeographicErr: ' + re.sub(r'\s+', ' ', expr.strip())[:200])
                out.append('{ VERIF_THROW_OTHER(%s); }%s' % (self._ret_default(ret_ctype), nl))
            i = semi + 1  # the replacement is a braced block; the ';' of the throw statement is consumed
        return ''.join(out)

    @staticmethod
    def _ret_default(ret_ctype):
        if ret_ctype == 'void':
            return ''
        if ret_ctype in ('double', 'float'):
            return 'VERIF_NAN'
        return '0'

    @staticmethod
    def _stmt_end(body, j):
        depth = 0
        n = len(body)
        while j < n:
            c = body[j]
            if c == '"' or c == "'":
                k = j + 1
                while k < n and body[k] != c:
                    k += 2 if body[k] == '\\' else 1
                j = k + 1
                continue
            if c in '([{':
                depth += 1
            elif c in ')]}':
                depth -= 1
            elif c == ';' and depth == 0:
                return j
            j += 1
        raise ExtractError('statement end not found')

    # ---- what is kept of a dropped (message) expression: everything that could be undefined or throw
    def kept_checks(self, expr, str_names=()):
        keep = []
        for cm in re.finditer(r'(?<![\w.>])int\s*\(', expr):
            ce = match_close(expr, cm.end() - 1)
            inner = expr[cm.end():ce]
            if re.search(r'[a-zA-Z_]', inner) and not re.search(r'\b(size|length|str|substr)\b', inner):
                keep.append('(void)int(%s);' % ' '.join(inner.split()))
                self.report.hit('R7b.kept_conversion_in_message')
        # std::string::substr(pos, n) throws std::out_of_range (not GeographicErr) if pos > size()
        for sm in re.finditer(r'(?<![\w.>])(\w+)\s*\.\s*substr\s*\(', expr):
            ce = match_close(expr, sm.end() - 1)
            args = split_top(expr[sm.end():ce])
            if args and args[0].strip():
                keep.append('vstr_substr_check(%s, %s);' % (sm.group(1), ' '.join(args[0].split())))
                self.report.hit('R7b.kept_substr_position_check')
        # reads of the class's constant tables
        for am in re.finditer(r'(?<![\w.>])([a-z]\w*_)\s*\[', expr):
            ce = match_close(expr, am.end() - 1, '[', ']')
            keep.append('(void)%s[%s];' % (am.group(1), ' '.join(expr[am.end():ce].split())))
            self.report.hit('R7b.kept_table_read_in_message')
        return keep

    # ---- R7c: a local std::string that only carries an error message becomes a flag
    def rule_message_strings(self, body):
        for dm in list(re.finditer(r'(?<![\w.>])(?:std::)?string\s+(\w+)\s*;', body)):
            nm = dm.group(1)
            uses = [m for m in re.finditer(r'(?<![\w.>])' + nm + r'\b', body) if m.start() != dm.start(1)]
            ok = True
            for m in uses:
                after = body[m.end():m.end() + 12].lstrip()
                before = body[max(0, m.start() - 30):m.start()]
                if after.startswith('=') and not after.startswith('=='):
                    continue
                if after.startswith('.empty'):
                    continue
                if re.search(r'GeographicErr\s*\(\s*$', before):
                    continue
                ok = False
            if not ok:
                continue
            # assignments
            while True:
                m = re.search(r'(?<![\w.>])' + nm + r'\s*=(?!=)', body)
                if not m:
                    break
                semi = self._stmt_end(body, m.end())
                expr = body[m.end():semi]
                keep = self.kept_checks(expr)
                self.report.dropped.append('message: ' + re.sub(r'\s+', ' ', expr.strip())[:160])
                body = body[:m.start()] + '{ %s %s_set = 1; }' % (' '.join(keep), nm) + '\n' * body[m.start():semi + 1].count('\n') + body[semi + 1:]
                self.report.hit('R7c.message_string_assignment')
            body = re.sub(r'(?<![\w.>])' + nm + r'\s*\.\s*empty\s*\(\s*\)', '(!%s_set)' % nm, body)
            body = re.sub(r'(?<![\w.>])(?:std::)?string\s+' + nm + r'\s*;', 'int %s_set = 0;' % nm, body, count=1)
            self.report.hit('R7c.message_string_local')
        return body

    # ---- R15: istringstream s(<string expr>); s >> v;   (number parsing of libstdc++ is not modelled)
    def rule_istringstream(self, body):
        pat = re.compile(r'(?<![\w.>])(?:std::)?istringstream\s+(\w+)\s*\(')
        while True:
            m = pat.search(body)
            if not m:
                break
            pc = match_close(body, m.end() - 1)
            arg = body[m.end():pc]
            rest = re.match(r'\s*;\s*' + m.group(1) + r'\s*>>\s*(\w+)\s*;', body[pc + 1:])
            if not rest:
                raise ExtractError('istringstream use not of the form  istringstream s(x); s >> v;')
            keep = self.kept_checks(arg)
            end = pc + 1 + rest.end()
            body = body[:m.start()] + '{ %s %s = verif_parse_real(); }' % (' '.join(keep), rest.group(1)) + '\n' * body[m.start():end].count('\n') + body[end:]
            self.report.hit('R15.istringstream_extract')
            self.report.dropped.append('number parsing: ' + re.sub(r'\s+', ' ', arg)[:120])
        return body

    # ---- R16: try { body } catch (...) { handler }  ->  body   (exceptions raised by iostream / allocation are not modelled)
    def rule_try_catch(self, body):
        while True:
            m = re.search(r'(?<![\w.>])try\s*\{', body)
            if not m:
                break
            bo = m.end() - 1
            bc = match_close(body, bo, '{', '}')
            rest = body[bc + 1:]
            end = bc + 1
            handlers = []
            while True:
                cm = re.match(r'\s*catch\s*\(', body[end:])
                if not cm:
                    break
                po = end + cm.end() - 1
                pc = match_close(body, po)
                ho = body.index('{', pc)
                hc = match_close(body, ho, '{', '}')
                handlers.append(body[end:hc + 1])
                end = hc + 1
            if not handlers:
                raise ExtractError('try without catch')
            dropped = ''.join(handlers)
            self.report.dropped.append('catch handler: ' + re.sub(r'\s+', ' ', dropped)[:160])
            self.report.hit('R16.try_catch_reduced_to_try_body')
            body = body[:m.start()] + '{' + body[bo + 1:bc] + '}' + '\n' * dropped.count('\n') + body[end:]
        return body

    # ---- R8 misc removals
    def rule_remove(self, body):
        def blank(m):
            return '\n' * m.group(0).count('\n')
        body, n = re.subn(r'\busing\s+(?:namespace\s+)?[\w:]+\s*;', blank, body)
        self.report.hit('R8.using', n)
        # static_assert(...);
        while True:
            m = re.search(r'\bstatic_assert\s*\(', body)
            if not m:
                break
            e = match_close(body, m.end() - 1)
            semi = body.find(';', e)
            body = body[:m.start()] + '\n' * body[m.start():semi + 1].count('\n') + body[semi + 1:]
            self.report.hit('R8.static_assert')
        return body

    # ---- numeric_limits
    def rule_numeric_limits(self, body):
        def sub(m):
            t, f = norm_type(m.group(1)), m.group(2)
            if t == 'T':
                t = 'real' if self.real == 'double' else self.real
            if t == 'real' and self.real == 'float':
                t = 'float'
            key = (t, f)
            if key not in NUMERIC_LIMITS:
                raise ExtractError('numeric_limits<%s>::%s not mapped' % key)
            self.report.hit('R3.numeric_limits')
            return NUMERIC_LIMITS[key]
        body = re.sub(r'\(\s*(?:std::)?numeric_limits\s*<\s*([\w: ]+?)\s*>\s*::\s*(\w+)\s*\)\s*\(\s*\)', sub, body)
        body = re.sub(r'(?:std::)?numeric_limits\s*<\s*([\w: ]+?)\s*>\s*::\s*(\w+)\s*(?:\(\s*\))?', sub, body)
        return body

    # ---- R10: std::copy(a, a + n, b) on plain arrays
    def rule_copy(self, body):
        def cp(m):
            self.report.hit('R10.array_copy')
            return 'VERIF_COPY(%s, %s, %s)' % (m.group(3), m.group(1), m.group(2).strip())
        body = re.sub(r'(?<![\w.>])copy\s*\(\s*(\w+)\s*,\s*\1\s*\+\s*([^,()]+?)\s*,\s*(\w+)\s*\)', cp, body)
        # std::fill(first, last, value) on plain arrays
        while True:
            m = re.search(r'(?<![\w.>])fill\s*\(', body)
            if not m:
                break
            pc = match_close(body, m.end() - 1)
            args = split_top(body[m.end():pc])
            if len(args) != 3:
                raise ExtractError('std::fill with %d arguments' % len(args))
            a0, a1, a2 = (' '.join(a.split()) for a in args)
            # the first argument may be an array (a data member): take the address of its first element so that the macro's iterator is a pointer
            body = body[:m.start()] + 'VERIF_FILL(&(%s)[0], %s, %s)' % (a0, a1, a2) + body[pc + 1:]
            self.report.hit('R10.array_fill')
        return body

    # ---- R13/R14 strings
    def rule_strings(self, body, str_names):
        """str_names: dict name -> 'in' | 'out' | 'local' ; names are pointer-valued for in/out and
        struct-valued for locals (address taken with &)."""
        for nm, kind in str_names.items():
            ref = nm if kind in ('in', 'out') else '&' + nm
            # nm = "LIT";
            def set_lit(m):
                self.report.hit('R14.assign_literal')
                return 'vstr_set(%s, %s);' % (ref, m.group(1))
            body = re.sub(r'\b' + nm + r'\s*=\s*("(?:[^"\\]|\\.)*")\s*;', set_lit, body)
            # copy(a, a + n, nm.begin())
            def cp(m):
                self.report.hit('R14.copy_in')
                return 'vstr_copy_in(%s, %s, %s)' % (ref, m.group(1), m.group(2).strip())
            body = re.sub(r'\bcopy\s*\(\s*(\w+)\s*,\s*\1\s*\+\s*(.+?)\s*,\s*' + nm + r'\s*\.\s*begin\s*\(\s*\)\s*\)', cp, body, flags=re.S)
            # nm.method(args)
            while True:
                m = re.search(r'(?<![\w.>])' + nm + r'\s*\.\s*(\w+)\s*\(', body)
                if not m:
                    break
                po = m.end() - 1
                pc = match_close(body, po)
                args = body[po + 1:pc].strip()
                self.report.hit('R13.method_' + m.group(1))
                body = body[:m.start()] + 'vstr_%s(%s%s)' % (m.group(1), ref, (', ' + args) if args else '') + body[pc + 1:]
            # nm[expr]
            while True:
                m = re.search(r'(?<![\w.>&])' + nm + r'\s*\[', body)
                if not m:
                    break
                bo = m.end() - 1
                bc = match_close(body, bo, '[', ']')
                self.report.hit('R13.index')
                body = body[:m.start()] + 'vstr_at(%s, %s)' % (ref, body[bo + 1:bc]) + body[bc + 1:]
        body, n = re.subn(r'\b(?:std::)?string::npos\b', 'VSTR_NPOS', body)
        self.report.hit('R13.npos', n)
        return body

    # ---- R3 casts
    def rule_casts(self, body):
        def sc(m):
            self.report.hit('R3.static_cast')
            return '(%s)' % self._ctype_of(m.group(1))
        body = re.sub(r'\bstatic_cast\s*<\s*([\w: ]+?)\s*>\s*(?=\()', sc, body)
        # functional casts  T(expr)  -> (T)(expr) ; not when preceded by an identifier char / '.' (method)
        extra = []
        if self.cls and self.cls in self.classinfo:
            extra = list(self.classinfo[self.cls].enum_names)
        names = '|'.join([t for t in CAST_TYPES if t != 'T' or self.template_T] + extra)
        out = []
        i = 0
        pat = re.compile(r'(?<![\w.>])(unsigned\s+long\s+long|long\s+long|' + names + r')\s*\(')
        while True:
            m = pat.search(body, i)
            if not m:
                out.append(body[i:])
                break
            # skip declarations like "int (" -- not present; skip "(unsigned long long)(" C-style casts
            before = body[:m.start()].rstrip()
            if before.endswith('(') and body[m.end() - 1] == '(' and False:
                pass
            # a C-style cast "(long long)(x)" has the type directly enclosed in parens: "(" type ")" -- the
            # regex requires "type (" so "(long long)(" does not match (there is a ')' between).
            out.append(body[i:m.start()])
            out.append('(%s)(' % self._ctype_of(m.group(1)))
            self.report.hit('R3.functional_cast')
            i = m.end()
        return ''.join(out)

    def _ctype_of(self, t):
        t = norm_type(t)
        if t in ('real', 'T'):
            return self.real
        if t == 'bool':
            return '_Bool'
        return SCALARS.get(t, t)

    # ---- R2 qualified names, R4 real
    def rule_names(self, body):
        body, n = re.subn(r'\bMath::real\b', 'real', body)
        body, ng = re.subn(r'\bGeographicLib::', '', body)
        # R19b: a method called on a library singleton, Class::Instance().Method(args) -> Class::Method(args)
        body, ns = re.subn(r'\b([A-Z]\w*)::(\w+)\s*\(\s*\)\s*\.\s*(\w+)\s*\(', r'\1::\3(', body)
        self.report.hit('R19b.singleton_method_call', ns)
        body, nmm = re.subn(r'\(\s*(?:std::)?(min|max)\s*\)\s*\(', r'\1(', body)
        self.report.hit('R10.parenthesised_minmax', nmm)
        body, n0 = re.subn(r'\bstd::', '', body)
        self.report.hit('R2.std', n0)
        # template arguments on calls: Math::degree<T>()  -> Math::degree()
        body, n1 = re.subn(r'(\b\w+::\w+)\s*<\s*(?:T|real|double|float)\s*>\s*\(', r'\1(', body)
        body, n1b = re.subn(r'\b(degree|pi|NaN|infinity)\s*<\s*(?:T|real|double|float)\s*>\s*\(', r'\1(', body)
        self.report.hit('R4.template_args', n1 + n1b)
        body, n2 = re.subn(r'\b([A-Za-z_]\w*)::([A-Za-z_]\w*)', r'\1_\2', body)
        self.report.hit('R2.qualified', n2)
        return body

    def rule_real(self, body):
        body, n = re.subn(r'\breal\b', self.real, body)
        n2 = 0
        if self.template_T:
            body, n2 = re.subn(r'\bT\b', self.real, body)
        self.report.hit('R4.real', n + n2)
        body, n3 = re.subn(r'\bbool\b', '_Bool', body)
        return body

    # ---- R9, R20
    def rule_statics(self, body):
        # a local integral constant initialised by a literal stays a compile-time constant in C (it may size an array)
        body, n0 = re.subn(r'\bstatic\s+const\s+(?:int|unsigned)\s+(\w+)\s*=\s*(\d+)\s*;', r'enum { \1 = \2 };', body)
        self.report.hit('R9.static_const_int_literal', n0)
        body, n = re.subn(r'\bstatic\s+const\b', 'const', body)
        self.report.hit('R9.static_const_local', n)
        body, n = re.subn(r'\bGEOGRAPHICLIB_VOLATILE\b', 'volatile', body)
        self.report.hit('R20.volatile', n)
        while True:
            m = re.search(r'\bGEOGRAPHICLIB_PANIC\s*\(', body)
            if not m:
                break
            e = match_close(body, m.end() - 1)
            body = body[:m.start()] + '0' + '\n' * body[m.start():e].count('\n') + body[e + 1:]
            self.report.hit('R20.panic')
        return body

    # ---- R11 members
    def rule_members(self, body, member_names, local_names=()):
        if not member_names:
            return body
        def sub(m):
            w = m.group(1)
            if w in member_names and w not in local_names:
                self.report.hit('R11.member')
                return 'self->' + w
            return w
        return re.sub(r'(?<![\w.>])([A-Za-z_]\w*)\b(?!\s*\()', sub, body)

    # ---- R5 reference parameters
    def rule_refs(self, body, ref_names):
        for nm in ref_names:
            if re.search(r'\b(?:int|real|double|bool|_Bool|unsigned|float)\s+' + nm + r'\b\s*[=;,]', body):
                raise ExtractError('reference parameter %s is re-declared in the body' % nm)
            body, n = re.subn(r'(?<![\w.>])' + nm + r'\b', '(*%s)' % nm, body)
            self.report.hit('R5.ref_param_use', n)
        return body

    # ---- R6 calls
    def rule_calls(self, body, ret_ctype, unqualified_cls=None):
        """Rewrite calls to known functions: choose overload by arity, fill defaults, wrap reference
        arguments in &(), add self for method calls on the same object; returns (body, may_throw_positions)"""
        # collect candidate names present in the functable (C++ names with :: replaced by _)
        names = {}
        for q, infos in self.functable.items():
            names.setdefault(q.replace('::', '_'), []).extend(infos)
            if unqualified_cls and q.startswith(unqualified_cls + '::'):
                names.setdefault(q.split('::', 1)[1], []).extend(infos)
        if not names:
            return body
        pat = re.compile(r'(?<![\w.>])(' + '|'.join(sorted(map(re.escape, names), key=len, reverse=True)) + r')\s*\(')
        # right-to-left so that nested calls are rewritten innermost-last without offset trouble
        pos = [m for m in pat.finditer(body)]
        for m in reversed(pos):
            name = m.group(1)
            po = m.end() - 1
            pc = match_close(body, po)
            args = [a.strip() for a in split_top(body[po + 1:pc])] if body[po + 1:pc].strip() else []
            nargs = len(args) - (1 if args and args[0].startswith('VERIF_OBJ(') else 0)
            infos = [fi for fi in names[name] if fi.required() <= nargs <= len(fi.params)]
            if len(infos) != 1:
                cn = set(fi.cname for fi in infos)
                if len(cn) != 1:
                    raise ExtractError('call to %s with %d args: %d matching overloads' % (name, len(args), len(infos)))
            fi = infos[0]
            full = list(args)
            for p in fi.params[nargs:]:
                d = p.default
                # defaults are C++ expressions of the callee's class: qualify enumerators
                full.append(self._default_expr(d, fi))
                self.report.hit('R6.default_arg')
            out_args = []
            if fi.is_method:
                if full and full[0].startswith('VERIF_OBJ('):
                    out_args.append('&(%s)' % full[0][len('VERIF_OBJ('):-1])
                    full = full[1:]
                    args = args[1:]
                else:
                    out_args.append('self')
            for a, p in zip(full, fi.params):
                if p.kind in ('ref',):
                    out_args.append('&' + a if re.match(r'^[\w.>\-\[\]]+$', a) and not a.startswith('(*') else '&(%s)' % a)
                    self.report.hit('R6.ref_arg')
                elif p.kind in ('obj_in', 'obj_out') and 'struct ' in p.ctype and re.search(r'\.|->', a) and not a.startswith('&'):
                    out_args.append('&(%s)' % a)   # a data member of class type passed by reference
                    self.report.hit('R6.object_member_arg')
                elif p.kind in ('str_in', 'str_out', 'obj_in', 'obj_out'):
                    out_args.append(a)     # already pointer-valued names (params) or &local handled by string rule
                else:
                    out_args.append(a)
            keepnl = '\n' * body[m.start():pc + 1].count('\n')
            callee_name = fi.cname
            if getattr(fi, 'replaced', False):
                # per-call-site vacuity canary: the call goes through a generated wrapper `f__sN` that asserts, after the call returns,
                # an assertion that must FAIL (be reachable) -- a contradictory assumed contract would otherwise cut the path silently
                if not hasattr(self, 'call_sites'):
                    self.call_sites = []
                k = len(self.call_sites)
                callee_name = '%s__at_%s_%d' % (fi.cname, getattr(self, 'site_prefix', 'f'), k)
                self.call_sites.append((k, fi, body.count('\n', 0, m.start())))
                self.report.hit('R6.call_site_canary')
            body = body[:m.start()] + '%s(%s)%s' % (callee_name, ', '.join(out_args), keepnl) + body[pc + 1:]
            self.report.hit('R6.call')
        return body

    def _default_expr(self, d, fi):
        d = d.strip()
        if fi.cls and fi.cls in self.classinfo:
            ci = self.classinfo[fi.cls]
            def q(m):
                w = m.group(0)
                return '%s_%s' % (fi.cls, w) if w in ci.consts else w
            d = re.sub(r'\b[A-Za-z_]\w*\b', q, d)
        d = d.replace('::', '_')
        return d

    # ---- R7b propagation of callee throws
    def rule_propagate(self, body, ret_ctype):
        throwers = set()
        for q, infos in self.functable.items():
            for fi in infos:
                if fi.may_throw:
                    throwers.add(fi.cname)
        if not throwers:
            return body
        pat = re.compile(r'(?<![\w.>])(' + '|'.join(sorted(map(re.escape, throwers), key=len, reverse=True)) + r')(?:__at_\w+)?\s*\(')
        # a may-throw call inside the condition of an `if`: hoist the condition into a temporary so that the
        # propagation test can follow it (only when the `if` starts a statement)
        nh = 0
        while True:
            hoisted = False
            for m in pat.finditer(body):
                # innermost unmatched '(' before the call
                depth = 0
                j = m.start() - 1
                while j >= 0:
                    c = body[j]
                    if c == ')':
                        depth += 1
                    elif c == '(':
                        if depth == 0:
                            break
                        depth -= 1
                    elif c in ';{}' and depth == 0:
                        j = -1
                        break
                    j -= 1
                if j < 0:
                    continue
                pre = body[:j].rstrip()
                if not pre.endswith('if'):
                    if re.search(r'\b(for|while|switch)$', pre):
                        raise ExtractError('may-throw call inside a for/while/switch header (not covered by R7)')
                    continue
                ifpos = len(pre) - 2
                before = body[:ifpos].rstrip()
                if before and before[-1] not in ';{}':
                    raise ExtractError('may-throw call inside the condition of an if that does not start a statement (not covered by R7)')
                close = match_close(body, j)
                cond = body[j + 1:close]
                nh += 1
                tmp = 'verif_cond%d_' % nh
                body = (body[:ifpos] + '_Bool %s = (%s); { VERIF_PROPAGATE(%s); } if (%s)' % (tmp, ' '.join(cond.split()), self._ret_default(ret_ctype), tmp)
                        + '\n' * cond.count('\n') + body[close + 1:])
                self.report.hit('R7.hoisted_condition')
                hoisted = True
                break
            if not hoisted:
                break
        inserts = []
        for m in pat.finditer(body):
            pc = match_close(body, m.end() - 1)
            semi = self._stmt_end_from(body, pc + 1)
            inserts.append(semi)
        for semi in sorted(set(inserts), reverse=True):
            after = body[semi + 1:]
            if re.match(r'\s*else\b', after):
                raise ExtractError('may-throw call directly before else: needs braces (not covered by R7)')
            body = body[:semi + 1] + ' { VERIF_PROPAGATE(%s); }' % self._ret_default(ret_ctype) + body[semi + 1:]
            self.report.hit('R7.propagate')
        return body

    @staticmethod
    def _stmt_end_from(body, j):
        """from position j (inside a statement, at depth relative 0 after a call) to the terminating ';'.
        If we are inside a for(...) / if(...) header, that is not covered."""
        depth = 0
        n = len(body)
        while j < n:
            c = body[j]
            if c in '([{':
                depth += 1
            elif c in ')]}':
                depth -= 1
                if depth < 0:
                    # the call sits inside an enclosing parenthesis of an expression statement / initialiser
                    # (control headers were hoisted or refused before): the statement ends at the next ';'
                    depth = 0
            elif c == ';' and depth == 0:
                return j
            j += 1
        raise ExtractError('statement end not found')


def sha256(text):
    return hashlib.sha256(text.encode()).hexdigest()
